#!/bin/bash
# usage: confirm_seed.sh <ID> [srcdir]  -- confirm a seeded change in a fresh scratch worktree:
#  demo passes on the clean tree, patch applies, library rebuilds, demo fails, pinned suite still passes.
# Copies <srcdir>/seed (default /tmp/wt/<ID>/seed) to /verif/seeded/<ID>/ first.
set -u
id="$1"; src="${2:-/tmp/wt/$id}"
dst=/verif/seeded/$id
mkdir -p "$dst"
if [ -d "$src/seed" ]; then cp -a "$src/seed/." "$dst/"; fi
w=/tmp/wt/confirm-$id
/verif/tools/rmwt.sh "$w" >/dev/null 2>&1
/verif/tools/mkwt.sh "$w" >/dev/null || exit 2
log="$dst/confirm.log"; : > "$log"
mkdir -p "$w/seed"; cp -a "$dst/." "$w/seed/"; rm -f "$w/seed/confirm.log" "$w/seed/meta.json"
# seeds were written in /tmp/wt/<ID>; retarget any absolute path
grep -rl "/tmp/wt/$id" "$w/seed" 2>/dev/null | xargs -r sed -i "s#/tmp/wt/$id#$w#g"
cd "$w"
( make -j8 >/dev/null 2>&1 )
echo "== demo on clean tree" >> "$log"
( timeout 900 sh seed/build.sh ) >> "$log" 2>&1; d0=$?
echo "exit=$d0" >> "$log"
echo "== apply patch" >> "$log"
git apply seed/patch.diff >> "$log" 2>&1; ap=$?
echo "apply=$ap" >> "$log"
( make -j8 ) > "$w/make.log" 2>&1; mk=$?
echo "make=$mk" >> "$log"; [ $mk -ne 0 ] && tail -20 "$w/make.log" >> "$log"
echo "== demo with patch" >> "$log"
( timeout 900 sh seed/build.sh ) >> "$log" 2>&1; d1=$?
echo "exit=$d1" >> "$log"
echo "== pinned suite with patch" >> "$log"
( make check -j8 ) > "$w/check.log" 2>&1; ck=$?
grep -E "^# (TOTAL|PASS|SKIP|FAIL|ERROR)" "$w/check.log" >> "$log"
grep -E "^(FAIL|ERROR):" "$w/check.log" >> "$log"
echo "check=$ck" >> "$log"
ok=no; [ $d0 -eq 0 ] && [ $ap -eq 0 ] && [ $mk -eq 0 ] && [ $d1 -ne 0 ] && [ $ck -eq 0 ] && ok=yes
echo "CONFIRMED=$ok demo_clean=$d0 apply=$ap make=$mk demo_patched=$d1 suite=$ck" | tee -a "$log"
cd /; /verif/tools/rmwt.sh "$w"
