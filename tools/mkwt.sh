#!/bin/sh
# usage: mkwt.sh <dir>   -- scratch git worktree of /repo HEAD with the configured build tree copied in
set -e
d="$1"
[ -n "$d" ] || { echo "usage: $0 <dir>" >&2; exit 2; }
git -C /repo worktree add --detach "$d" HEAD >/dev/null 2>&1
rsync -a --exclude .git /repo/ "$d"/
echo "$d"
