#!/bin/bash
# usage: run_seeded.sh <seed-id> [tier] [property ...]
# Applies /verif/seeded/<seed-id>/patch.diff to a scratch worktree of /repo and runs the
# property's check(s) against it (VERIF_REPO), with build output and evidence kept outside /verif.
set -u
sid="$1"; tier="${2:-quick}"; shift; shift || true
props="$*"
meta=/verif/seeded/$sid/meta.json
[ -z "$props" ] && props=$(python3 -c "import json;print(' '.join(json.load(open('$meta'))['properties']))" 2>/dev/null)
[ -z "$props" ] && props="${sid%%-*}"
w=/tmp/wt/mut-$sid
/verif/tools/rmwt.sh "$w" >/dev/null 2>&1
/verif/tools/mkwt.sh "$w" >/dev/null || exit 2
git -C "$w" apply /verif/seeded/$sid/patch.diff || { echo "patch does not apply"; /verif/tools/rmwt.sh "$w"; exit 2; }
rc=0
for p in $props; do
  echo "== seed $sid: check $p ($tier)"
  VERIF_REPO="$w" VERIF_BUILD="$w/vbuild" VERIF_OUT="$w/vout" /verif/bin/vcheck "$p" --tier "$tier" | grep -v '^  case' | cut -c1-400 | tail -8
  r=${PIPESTATUS[0]}
  echo "== seed $sid: check $p exit=$r"
  [ "$r" -ne 1 ] && rc=1
done
/verif/tools/rmwt.sh "$w"
exit $rc
