#!/bin/bash
# Runs every seeded change against the quick check of each property it breaks; writes seeded/RESULTS.txt
# (a seed counts as detected for a property when that check exits 1 with a VIOLATION line).
out=/verif/seeded/RESULTS.txt
: > "$out.tmp"
for d in /verif/seeded/*/; do
  id=$(basename "$d")
  [ -f "$d/meta.json" ] || continue
  props=$(python3 -c "import json;print(' '.join(json.load(open('$d/meta.json'))['breaks_properties']))")
  for p in $props; do
    r=$(/verif/tools/run_seeded.sh "$id" quick "$p" 2>&1 | grep "check $p exit=" | sed 's/.*exit=//')
    echo "seed=$id property=$p check_exit=$r $( [ "$r" = 1 ] && echo DETECTED || echo NOT-DETECTED )" | tee -a "$out.tmp"
  done
done
mv "$out.tmp" "$out"
