#!/bin/bash
# Runs every seeded change (or the ones named on the command line) against the quick check of each property it breaks;
# writes seeded/RESULTS.txt (full run) or prints only (partial run).  A seed counts as detected for a property when that
# check exits 1 with a VIOLATION line.
out=/verif/seeded/RESULTS.txt
if [ $# -gt 0 ]; then list="$*"; out=/dev/null; else list=$(ls -d /verif/seeded/*/ | xargs -n1 basename); fi
: > "$out.tmp" 2>/dev/null || true
for id in $list; do
  d=/verif/seeded/$id
  [ -f "$d/meta.json" ] || continue
  props=$(python3 -c "import json;print(' '.join(json.load(open('$d/meta.json'))['breaks_properties']))")
  for p in $props; do
    r=$(/verif/tools/run_seeded.sh "$id" quick "$p" 2>&1 | grep "check $p exit=" | sed 's/.*exit=//')
    line="seed=$id property=$p check_exit=$r $( [ "$r" = 1 ] && echo DETECTED || echo NOT-DETECTED )"
    echo "$line"
    [ "$out" != /dev/null ] && echo "$line" >> "$out.tmp"
  done
done
[ "$out" != /dev/null ] && mv "$out.tmp" "$out"
exit 0
