#!/usr/bin/env python3
"""Regenerate /verif/MANIFEST.json from the check registry (vlib/checks.py)."""
import json, os, sys
sys.path.insert(0, os.path.join(os.path.dirname(os.path.abspath(__file__)), ".."))
from vlib import checks

ALL = ["C%02d" % i for i in range(1, 21)]
NOT_APPLICABLE = getattr(checks, "NOT_APPLICABLE", {})

m = dict(
    version=1,
    setup_cmd="python3 vlib/build.py o2 o1 o0 asan msan tsan pic hook so",
    hooks=dict(
        guard="LIBXCRYPT_VERIF",
        enable="no source hooks are needed: observation is by compiler instrumentation (-fsanitize=thread objects linked against the "
               "harness's own __tsan_* runtime), link-time interposition (malloc/mmap/arc4random_buf/abort/__assert_fail) and the "
               "library's internal-but-global _crypt_* symbols; checks compile lib/*.c of the working tree themselves (vlib/build.py)",
        baseline_off_cmd="make -C /repo check -j8",
        source_commits=[],
        add_only=True),
    engines=[
        dict(name="vbuild", path="vlib/build.py", serves_properties=ALL, kind_free_text="rebuilds every variant of the library from /repo's working tree (content-hashed object cache)"),
        dict(name="vcheck", path="bin/vcheck", serves_properties=ALL, kind_free_text="driver: shards enumerators over 16 cores, aggregates counters, matches known findings, writes evidence and replay files"),
        dict(name="vh_rt", path="harness/vh_rt.c", serves_properties=ALL, kind_free_text="harness runtime: fatal outcomes as data, allocator/mmap/entropy seams, guarded memory"),
    ],
    checks=[],
    notes="All checks: cwd=/verif, VERIF_REPO selects the tree (default /repo). Exit 2 = internal error of the machinery, never a verdict.",
    not_applicable=[],
)
for pid in ALL:
    if pid in checks.CHECKS:
        c = checks.CHECKS[pid]
        mf = c["manifest"]
        m["checks"].append(dict(
            property_id=pid,
            quick_cmd="bin/vcheck %s --tier quick" % pid,
            thorough_cmd="bin/vcheck %s --tier thorough" % pid,
            evidence_file="/verif/evidence/%s.json" % pid,
            replay_cmd_template="bin/vcheck replay {path}",
            engine="vcheck",
            level_claimed=dict(category=c["level"], text=mf["text"], design_ref=mf["ref"]),
            level_note=mf["note"],
            technique=mf["technique"]))
    else:
        m["not_applicable"].append(dict(property_id=pid, reason=NOT_APPLICABLE.get(pid, "check not built yet in this round; see DESIGN.md for the planned bounded-exhaustive check")))
json.dump(m, open(os.path.join(os.path.dirname(os.path.abspath(__file__)), "..", "MANIFEST.json"), "w"), indent=1)
print("MANIFEST.json: %d checks, %d not_applicable" % (len(m["checks"]), len(m["not_applicable"])))
