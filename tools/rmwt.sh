#!/bin/sh
# usage: rmwt.sh <dir>
git -C /repo worktree remove --force "$1" 2>/dev/null || rm -rf "$1"
git -C /repo worktree prune
