/* prints the layout and constants a caller compiles in from <crypt.h> */
#include <crypt.h>
#include <stddef.h>
#include <stdio.h>
int
main (void)
{
  printf ("sizeof(struct crypt_data)=%zu\n", sizeof (struct crypt_data));
  printf ("offsetof(output)=%zu\n", offsetof (struct crypt_data, output));
  printf ("offsetof(setting)=%zu\n", offsetof (struct crypt_data, setting));
  printf ("offsetof(input)=%zu\n", offsetof (struct crypt_data, input));
  printf ("offsetof(reserved)=%zu\n", offsetof (struct crypt_data, reserved));
  printf ("offsetof(initialized)=%zu\n", offsetof (struct crypt_data, initialized));
  printf ("offsetof(internal)=%zu\n", offsetof (struct crypt_data, internal));
  printf ("sizeof(output)=%zu\n", sizeof (((struct crypt_data *) 0)->output));
  printf ("sizeof(setting)=%zu\n", sizeof (((struct crypt_data *) 0)->setting));
  printf ("sizeof(input)=%zu\n", sizeof (((struct crypt_data *) 0)->input));
  printf ("sizeof(reserved)=%zu\n", sizeof (((struct crypt_data *) 0)->reserved));
  printf ("sizeof(initialized)=%zu\n", sizeof (((struct crypt_data *) 0)->initialized));
  printf ("sizeof(internal)=%zu\n", sizeof (((struct crypt_data *) 0)->internal));
  printf ("CRYPT_OUTPUT_SIZE=%d\n", CRYPT_OUTPUT_SIZE);
  printf ("CRYPT_MAX_PASSPHRASE_SIZE=%d\n", CRYPT_MAX_PASSPHRASE_SIZE);
  printf ("CRYPT_GENSALT_OUTPUT_SIZE=%d\n", CRYPT_GENSALT_OUTPUT_SIZE);
  printf ("CRYPT_DATA_RESERVED_SIZE=%d\n", CRYPT_DATA_RESERVED_SIZE);
  printf ("CRYPT_DATA_INTERNAL_SIZE=%d\n", CRYPT_DATA_INTERNAL_SIZE);
  printf ("CRYPT_SALT_OK=%d\n", CRYPT_SALT_OK);
  printf ("CRYPT_SALT_INVALID=%d\n", CRYPT_SALT_INVALID);
  printf ("CRYPT_SALT_METHOD_DISABLED=%d\n", CRYPT_SALT_METHOD_DISABLED);
  printf ("CRYPT_SALT_METHOD_LEGACY=%d\n", CRYPT_SALT_METHOD_LEGACY);
  printf ("CRYPT_SALT_TOO_CHEAP=%d\n", CRYPT_SALT_TOO_CHEAP);
#ifdef CRYPT_GENSALT_IMPLEMENTS_DEFAULT_PREFIX
  printf ("CRYPT_GENSALT_IMPLEMENTS_DEFAULT_PREFIX=%d\n", CRYPT_GENSALT_IMPLEMENTS_DEFAULT_PREFIX);
#endif
#ifdef CRYPT_GENSALT_IMPLEMENTS_AUTO_ENTROPY
  printf ("CRYPT_GENSALT_IMPLEMENTS_AUTO_ENTROPY=%d\n", CRYPT_GENSALT_IMPLEMENTS_AUTO_ENTROPY);
#endif
#ifdef CRYPT_CHECKSALT_AVAILABLE
  printf ("CRYPT_CHECKSALT_AVAILABLE=%d\n", CRYPT_CHECKSALT_AVAILABLE);
#endif
#ifdef CRYPT_PREFERRED_METHOD_AVAILABLE
  printf ("CRYPT_PREFERRED_METHOD_AVAILABLE=%d\n", CRYPT_PREFERRED_METHOD_AVAILABLE);
#endif
  return 0;
}
