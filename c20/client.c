/* An "old client": compiled against the RELEASED <crypt.h> and linked against the RELEASED
   libcrypt.so.1 only.  It exercises every (symbol, version) pair through plain calls (bound
   at link time to the released default versions) and through dlvsym on the library that the
   dynamic loader resolves "libcrypt.so.1" to, and prints a transcript.  The checker runs it
   twice - with the released library, and with the freshly built one substituted through
   LD_LIBRARY_PATH - and compares the transcripts. */
#define _GNU_SOURCE
#include <crypt.h>
#include <dlfcn.h>
#include <errno.h>
#include <stdio.h>
#include <stdlib.h>
#include <string.h>

static const char *const settings[] = {
  "$y$j75$saltSALTsalt", "$y$j/.$ABCDEFGH$", "$gy$j75$saltSALTsalt", "$7$4/..../....saltSALTsalt", "$2b$04$abcdefghijklmnopqrstuu",
  "$2y$04$abcdefghijklmnopqrstuu", "$2a$04$abcdefghijklmnopqrstuu", "$2x$04$abcdefghijklmnopqrstuu", "$6$rounds=1000$saltSALTsaltSALT", "$6$ABCDEFGH$",
  "$5$rounds=1000$saltSALTsaltSALT", "$5$ABCDEFGH$", "$sha1$24$saltSALTsalt", "$md5$saltSALT", "$md5,rounds=1$ABCDEFGH$", "$1$saltSALT", "$3$", "_/...salt", "_J9..ABCD",
  "ab............", "ab", "Zz",
  /* failures */
  "$1$sa:lt", "$9$unknown", "*0", "*1", "", "$", "a", "$6$rounds=1$salt", "$2b$03$abcdefghijklmnopqrstuu", "_/...sal", "$y$j75$sa=lt", 0
};
static const char *const phrases[] = { "", "a", "pa55w0rd", "correct horse battery staple", "\xff\xa3" "345\xd0\xc1\xd2\xcf", "0123456789012345678901234567890123456789012345678901234567890123456789012345", 0 };
static const char *const prefixes[] = { "$y$", "$gy$", "$7$", "$2b$", "$2y$", "$2a$", "$2x$", "$6$", "$5$", "$sha1", "$md5", "$1$", "$3$", "_", "", "ab", "$9$", "$6$rounds=1000$abcdefgh$", 0 };
static const unsigned long counts[] = { 0, 1, 4, 5, 6, 11, 12, 31, 1000, 5000, 100000, 4294967295UL };

static void
show (const char *what, const char *a, const char *b, const char *r, int e)
{
  printf ("%s|%s|%s => %s", what, a ? a : "(null)", b ? b : "(null)", r ? r : "NULL");
  if (!r || r[0] == '*')
    printf (" errno=%d", e);
  printf ("\n");
}

typedef char *(*f2) (const char *, const char *);
typedef char *(*f3) (const char *, const char *, struct crypt_data *);
typedef char *(*fgs) (const char *, unsigned long, const char *, int);
typedef char *(*fgsr) (const char *, unsigned long, const char *, int, char *, int);

int
main (int argc, char **argv)
{
  void *h = dlopen ("libcrypt.so.1", RTLD_NOW);
  if (!h)
    {
      printf ("cannot open libcrypt.so.1: %s\n", dlerror ());
      return 2;
    }
  Dl_info di;
  if (argc > 1 && dladdr (dlsym (h, "crypt_rn"), &di))
    fprintf (stderr, "loaded %s\n", di.dli_fname);
  /* (symbol, version) pairs given on stdin by the checker: each must resolve */
  char line[200];
  while (fgets (line, sizeof line, stdin))
    {
      char sym[100], ver[100];
      if (sscanf (line, "%99s %99s", sym, ver) != 2)
        continue;
      printf ("dlvsym %s@%s: %s\n", sym, ver, dlvsym (h, sym, ver) ? "resolves" : "MISSING");
    }
  static struct crypt_data d;
  static const char rb[80] = "0123456789abcdefghijklmnopqrstuvwxyzABCDEFGHIJKLMNOPQRSTUVWXYZ./+-=_,;<>()[]{}#";
  f2 x_crypt = (f2) dlvsym (h, "xcrypt", "XCRYPT_2.0"), f_crypt = (f2) dlvsym (h, "fcrypt", "GLIBC_2.2.5"), old_crypt = (f2) dlvsym (h, "crypt", "GLIBC_2.2.5");
  f3 x_crypt_r = (f3) dlvsym (h, "xcrypt_r", "XCRYPT_2.0"), old_crypt_r = (f3) dlvsym (h, "crypt_r", "GLIBC_2.2.5");
  fgs x_gensalt = (fgs) dlvsym (h, "xcrypt_gensalt", "XCRYPT_2.0"), ow_gensalt = (fgs) dlvsym (h, "crypt_gensalt", "OW_CRYPT_1.0");
  fgsr x_gensalt_r = (fgsr) dlvsym (h, "xcrypt_gensalt_r", "XCRYPT_2.0"), c_gensalt_r = (fgsr) dlvsym (h, "crypt_gensalt_r", "XCRYPT_2.0"),
    ow_gensalt_rn = (fgsr) dlvsym (h, "crypt_gensalt_rn", "OW_CRYPT_1.0");
  for (int s = 0; settings[s]; s++)
    for (int p = 0; phrases[p]; p++)
      {
        char *r;
        errno = 0; r = crypt (phrases[p], settings[s]); show ("crypt", phrases[p], settings[s], r, errno);
        memset (&d, 0, sizeof d);
        errno = 0; r = crypt_r (phrases[p], settings[s], &d); show ("crypt_r", phrases[p], settings[s], r, errno);
        memset (&d, 0x5a, sizeof d);
        errno = 0; r = crypt_rn (phrases[p], settings[s], &d, sizeof d); show ("crypt_rn", phrases[p], settings[s], r, errno);
        void *ra = 0; int rasz = 0;
        errno = 0; r = crypt_ra (phrases[p], settings[s], &ra, &rasz); show ("crypt_ra", phrases[p], settings[s], r, errno);
        printf ("crypt_ra size=%d\n", rasz);
        free (ra);
        if (p < 3)
          {
            if (x_crypt) { errno = 0; r = x_crypt (phrases[p], settings[s]); show ("xcrypt@XCRYPT_2.0", phrases[p], settings[s], r, errno); }
            if (f_crypt) { errno = 0; r = f_crypt (phrases[p], settings[s]); show ("fcrypt@GLIBC_2.2.5", phrases[p], settings[s], r, errno); }
            if (old_crypt) { errno = 0; r = old_crypt (phrases[p], settings[s]); show ("crypt@GLIBC_2.2.5", phrases[p], settings[s], r, errno); }
            memset (&d, 0, sizeof d);
            if (x_crypt_r) { errno = 0; r = x_crypt_r (phrases[p], settings[s], &d); show ("xcrypt_r@XCRYPT_2.0", phrases[p], settings[s], r, errno); }
            if (old_crypt_r) { errno = 0; r = old_crypt_r (phrases[p], settings[s], &d); show ("crypt_r@GLIBC_2.2.5", phrases[p], settings[s], r, errno); }
          }
        printf ("checksalt|%s => %d\n", settings[s], crypt_checksalt (settings[s]));
      }
  /* the header documents 'setting' and 'input' as scratch space for the application: an old caller stages its
     strings there and calls repeatedly on the same object */
  for (int s = 0; settings[s] && s < 22; s += 3)
    {
      memset (&d, 0, sizeof d);
      snprintf (d.input, sizeof d.input, "%s", "staged-passphrase");
      snprintf (d.setting, sizeof d.setting, "%s", settings[s]);
      for (int rep = 0; rep < 3; rep++)
        {
          errno = 0;
          char *r = rep == 1 ? crypt_rn (d.input, d.setting, &d, sizeof d) : crypt_r (d.input, d.setting, &d);
          show (rep == 1 ? "staged crypt_rn" : "staged crypt_r", d.input, d.setting, r, errno);
        }
    }
  /* 512-byte phrase */
  {
    static char big[600];
    memset (big, 'x', 512);
    errno = 0;
    char *r = crypt_rn (big, "$1$saltSALT", &d, sizeof d);
    show ("crypt_rn", "(512 bytes)", "$1$saltSALT", r, errno);
    big[511] = 0;
    errno = 0;
    r = crypt_rn (big, "$1$saltSALT", &d, sizeof d);
    show ("crypt_rn", "(511 bytes)", "$1$saltSALT", r, errno);
  }
  for (int p = 0; prefixes[p]; p++)
    for (unsigned c = 0; c < sizeof counts / sizeof *counts; c++)
      for (int nrb = 16; nrb <= 64; nrb += 16)
        {
          char out[CRYPT_GENSALT_OUTPUT_SIZE], lab[64], *r;
          snprintf (lab, sizeof lab, "count=%lu,nrbytes=%d", counts[c], nrb);
          errno = 0; r = crypt_gensalt (prefixes[p], counts[c], rb, nrb); show ("crypt_gensalt", prefixes[p], lab, r, errno);
          errno = 0; r = crypt_gensalt_rn (prefixes[p], counts[c], rb, nrb, out, sizeof out); show ("crypt_gensalt_rn", prefixes[p], lab, r, errno);
          errno = 0; r = crypt_gensalt_ra (prefixes[p], counts[c], rb, nrb); show ("crypt_gensalt_ra", prefixes[p], lab, r, errno); free (r);
          if (nrb == 16)
            {
              if (x_gensalt) { errno = 0; r = x_gensalt (prefixes[p], counts[c], rb, nrb); show ("xcrypt_gensalt@XCRYPT_2.0", prefixes[p], lab, r, errno); }
              if (ow_gensalt) { errno = 0; r = ow_gensalt (prefixes[p], counts[c], rb, nrb); show ("crypt_gensalt@OW_CRYPT_1.0", prefixes[p], lab, r, errno); }
              if (x_gensalt_r) { errno = 0; r = x_gensalt_r (prefixes[p], counts[c], rb, nrb, out, sizeof out); show ("xcrypt_gensalt_r@XCRYPT_2.0", prefixes[p], lab, r, errno); }
              if (c_gensalt_r) { errno = 0; r = c_gensalt_r (prefixes[p], counts[c], rb, nrb, out, sizeof out); show ("crypt_gensalt_r@XCRYPT_2.0", prefixes[p], lab, r, errno); }
              if (ow_gensalt_rn) { errno = 0; r = ow_gensalt_rn (prefixes[p], counts[c], rb, nrb, out, sizeof out); show ("crypt_gensalt_rn@OW_CRYPT_1.0", prefixes[p], lab, r, errno); }
            }
        }
  /* every buffer size an old program may have compiled in (crypt_blowfish's own CRYPT_GENSALT_OUTPUT_SIZE was 7+22+1 = 30).
     The sha-crypt family and md5crypt are left out: at their exact-fit sizes 4.4.33 aborts (fixed defect F2) */
  for (int p = 0; prefixes[p]; p++)
    {
      if (!strncmp (prefixes[p], "$1$", 3) || !strncmp (prefixes[p], "$5$", 3) || !strncmp (prefixes[p], "$6$", 3))
        continue;
      for (int sz = 1; sz <= 72; sz++)
        {
          char out[80], lab[64], *r;
          snprintf (lab, sizeof lab, "count=0,nrbytes=16,size=%d", sz);
          errno = 0; r = crypt_gensalt_rn (prefixes[p], 0, rb, 16, out, sz); show ("crypt_gensalt_rn", prefixes[p], lab, r, errno);
        }
    }
  /* every amount of caller-supplied randomness an old program may pass.  Left out: md5crypt/sha256crypt/sha512crypt with 3, 6,
     9 or 12 bytes - there 4.4.33 dropped the last 3-byte group (a salt-less setting for 3 bytes), which is fixed defect F3 of
     this tree, so the two libraries differ on purpose */
  for (int p = 0; prefixes[p]; p++)
    for (int nrb = 0; nrb <= 72; nrb++)
      {
        if (nrb % 3 == 0 && nrb >= 3 && nrb <= 12 && (!strncmp (prefixes[p], "$1$", 3) || !strncmp (prefixes[p], "$5$", 3) || !strncmp (prefixes[p], "$6$", 3)))
          continue;
        char out[CRYPT_GENSALT_OUTPUT_SIZE], lab[64], *r;
        snprintf (lab, sizeof lab, "count=0,nrbytes=%d (sweep)", nrb);
        errno = 0; r = crypt_gensalt_rn (prefixes[p], 0, rb, nrb, out, sizeof out); show ("crypt_gensalt_rn", prefixes[p], lab, r, errno);
      }
  {
    char out[CRYPT_GENSALT_OUTPUT_SIZE], *r;
    errno = 0; r = crypt_gensalt_rn (0, 0, rb, 32, out, sizeof out); show ("crypt_gensalt_rn", "(NULL prefix)", "", r, errno);
    errno = 0; r = crypt_gensalt_rn ("$6$", 0, rb, 16, out, 10); show ("crypt_gensalt_rn", "$6$", "size=10", r, errno);
    errno = 0; r = crypt_gensalt_rn ("$2b$", 0, rb, 16, out, 29); show ("crypt_gensalt_rn", "$2b$", "size=29", r, errno);
    printf ("preferred => %s\n", crypt_preferred_method ());
  }
  /* old binaries could place struct crypt_data (alignment 1 in the released header) at any address, between other data:
     every offset 0..15 inside a canary-filled buffer, every method, through the default and the oldest crypt_r/crypt_rn */
  {
    static unsigned char arena[64 + sizeof (struct crypt_data) + 64];
    f3 old_r = (f3) dlvsym (h, "crypt_r", "GLIBC_2.2.5");
    typedef char *(*f4) (const char *, const char *, void *, int);
    f4 old_rn = (f4) dlvsym (h, "crypt_rn", "GLIBC_2.2.5");
    for (int off = 0; off < 16; off++)
      for (int s = 0; settings[s] && s < 22; s++)
        for (int via = 0; via < 4; via++)
          {
            memset (arena, 0xC3, sizeof arena);
            struct crypt_data *dd = (struct crypt_data *) (arena + 32 + off);
            memset (dd, 0, sizeof *dd);
            char *r = 0;
            errno = 0;
            if (via == 0)
              r = crypt_r ("pa55w0rd", settings[s], dd);
            else if (via == 1)
              r = crypt_rn ("pa55w0rd", settings[s], dd, sizeof *dd);
            else if (via == 2 && old_r)
              r = old_r ("pa55w0rd", settings[s], dd);
            else if (via == 3 && old_rn)
              r = old_rn ("pa55w0rd", settings[s], dd, sizeof *dd);
            else
              continue;
            int e = errno, damaged = 0;
            for (size_t i = 0; i < sizeof arena; i++)
              if ((i < 32u + (unsigned) off || i >= 32u + (unsigned) off + sizeof *dd) && arena[i] != 0xC3)
                damaged = 1;
            char what[64], how[48];
            snprintf (what, sizeof what, "placed-object/%s", via == 0 ? "crypt_r" : via == 1 ? "crypt_rn" : via == 2 ? "crypt_r@GLIBC_2.2.5" : "crypt_rn@GLIBC_2.2.5");
            snprintf (how, sizeof how, "offset=%d neighbours=%s", off, damaged ? "OVERWRITTEN" : "intact");
            char both[300];
            snprintf (both, sizeof both, "%s %s", settings[s], how);
            show (what, "pa55w0rd", both, r, e);
          }
  }
  /* obsolete DES API */
  void (*sk) (const char *) = (void (*)(const char *)) dlvsym (h, "setkey", "GLIBC_2.2.5");
  void (*en) (char *, int) = (void (*)(char *, int)) dlvsym (h, "encrypt", "GLIBC_2.2.5");
  void (*skr) (const char *, struct crypt_data *) = (void (*)(const char *, struct crypt_data *)) dlvsym (h, "setkey_r", "GLIBC_2.2.5");
  void (*enr) (char *, int, struct crypt_data *) = (void (*)(char *, int, struct crypt_data *)) dlvsym (h, "encrypt_r", "GLIBC_2.2.5");
  if (sk && en && skr && enr)
    for (int t = 0; t < 24; t++)
      {
        char key[64], blk[64], blk2[64];
        for (int i = 0; i < 64; i++)
          {
            key[i] = (char) (((i * 7 + t * 13) % 5 < 2) | (t % 3 == 1 ? 0x30 : 0));
            blk[i] = (char) (((i * 11 + t * 3) % 7 < 3) | (t % 3 == 2 ? 0xfe : 0));
          }
        memcpy (blk2, blk, 64);
        sk (key);
        if (t % 4 == 1)
          (void) crypt ("interleaved", "ab");       /* the static key is independent of crypt's state */
        if (t % 4 == 2)
          (void) crypt_gensalt ("$1$", 0, rb, 16);
        en (blk, 0);
        printf ("setkey/encrypt %d => ", t);
        for (int i = 0; i < 64; i++)
          printf ("%d", blk[i]);
        en (blk, 1);
        printf (" / ");
        for (int i = 0; i < 64; i++)
          printf ("%d", blk[i]);
        memset (&d, t % 2 ? 0xb7 : 0, sizeof d);      /* old callers only cleared 'initialized' */
        d.initialized = 0;
        skr (key, &d);
        enr (blk2, 0, &d);
        printf (" / _r ");
        for (int i = 0; i < 64; i++)
          printf ("%d", blk2[i]);
        printf ("\n");
      }
  /* every non-zero edflag means "decrypt" to a caller compiled against void encrypt (char *, int) */
  if (sk && en && skr && enr)
    {
      static const int flags[] = { 0, 1, 2, -1, 255, 256, 512, 0x1000, 0x10000, 0x7fffff00, (int) 0x80000000u };
      for (unsigned t = 0; t < sizeof flags / sizeof *flags; t++)
        {
          char key[64], blk[64], blk2[64];
          for (int i = 0; i < 64; i++)
            {
              key[i] = (char) ((i * 3 + 1) % 4 == 0);
              blk[i] = (char) ((i * 7 + 2) % 3 == 0);
            }
          memcpy (blk2, blk, 64);
          sk (key);
          en (blk, flags[t]);
          memset (&d, 0, sizeof d);
          skr (key, &d);
          enr (blk2, flags[t], &d);
          printf ("encrypt/edflag=%d => ", flags[t]);
          for (int i = 0; i < 64; i++)
            printf ("%d", blk[i]);
          printf (" / _r ");
          for (int i = 0; i < 64; i++)
            printf ("%d", blk2[i]);
          printf ("\n");
        }
    }
  /* an object moved between setkey_r and encrypt_r (struct assignment into a record, realloc of an array of objects): with the
     released library the keyed object is a plain value as long as both places are 4-byte aligned */
  if (skr && enr)
    {
      static unsigned char arena2[2][64 + sizeof (struct crypt_data)] __attribute__ ((aligned (16)));
      static const int offs[][2] = { {0, 4}, {0, 8}, {0, 12}, {4, 8}, {8, 0}, {12, 16}, {4, 20}, {0, 16} };
      for (unsigned t = 0; t < sizeof offs / sizeof *offs; t++)
        {
          char key[64], blk[64];
          for (int i = 0; i < 64; i++)
            {
              key[i] = (char) ((i * 5 + (int) t) % 3 == 0);
              blk[i] = (char) ((i * 3 + (int) t) % 4 == 1);
            }
          struct crypt_data *a = (struct crypt_data *) (arena2[0] + offs[t][0]), *b = (struct crypt_data *) (arena2[1] + offs[t][1]);
          memset (a, 0, sizeof *a);
          skr (key, a);
          memcpy (b, a, sizeof *b);
          memset (a, 0x5a, sizeof *a);
          enr (blk, 0, b);
          printf ("setkey_r/move(%d->%d)/encrypt_r => ", offs[t][0], offs[t][1]);
          for (int i = 0; i < 64; i++)
            printf ("%d", blk[i]);
          printf ("\n");
        }
    }
  return 0;
}
