"""vbuild: build libxcrypt variants straight from the working tree of VERIF_REPO.

Nothing under the repository's own build output is trusted: the generated
headers are regenerated with the tree's perl scripts, every lib/*.c of
libcrypt_la_SOURCES is compiled from source.  An object cache keyed by the
SHA-256 of (preprocessed source, flags, compiler version) keeps rebuilds cheap
while staying sound with respect to edits of /repo.
"""
import hashlib, os, re, shutil, subprocess, sys
from concurrent.futures import ThreadPoolExecutor

VERIF = os.path.dirname(os.path.dirname(os.path.abspath(__file__)))
REPO = os.environ.get("VERIF_REPO", "/repo")
BUILD = os.environ.get("VERIF_BUILD", os.path.join(VERIF, "build"))
CACHE = os.path.join(BUILD, "cache")
NCPU = os.cpu_count() or 4

ALL_HASHES = ["bcrypt", "bcrypt_a", "bcrypt_x", "bcrypt_y", "bigcrypt", "bsdicrypt",
              "descrypt", "gost_yescrypt", "md5crypt", "nt", "scrypt", "sha1crypt",
              "sha256crypt", "sha512crypt", "sunmd5", "yescrypt"]


class BuildError(Exception):
    pass


def run(cmd, **kw):
    p = subprocess.run(cmd, stdout=subprocess.PIPE, stderr=subprocess.PIPE, **kw)
    if p.returncode != 0:
        raise BuildError("command failed (%d): %s\n%s\n%s" % (
            p.returncode, " ".join(cmd), p.stdout.decode(errors="replace")[-4000:],
            p.stderr.decode(errors="replace")[-4000:]))
    return p.stdout


_ver = {}


def cc_version(cc):
    if cc not in _ver:
        _ver[cc] = subprocess.run([cc, "--version"], stdout=subprocess.PIPE).stdout.decode().splitlines()[0]
    return _ver[cc]


def makefile_var(name, default=None):
    """Read a configure substitution from REPO/Makefile (falls back to default)."""
    try:
        for line in open(os.path.join(REPO, "Makefile"), errors="replace"):
            m = re.match(r"^%s\s*=\s*(.*)$" % re.escape(name), line)
            if m:
                return m.group(1).strip()
    except OSError:
        pass
    return default


def lib_sources():
    """libcrypt_la_SOURCES from Makefile.am (+ the obsolete-API file)."""
    txt = open(os.path.join(REPO, "Makefile.am")).read()
    m = re.search(r"^libcrypt_la_SOURCES\s*=\s*\\\n((?:\s+\S+\s*\\?\n)+)", txt, re.M)
    if not m:
        raise BuildError("cannot find libcrypt_la_SOURCES in Makefile.am")
    srcs = re.findall(r"(lib/\S+\.c)", m.group(1))
    for extra in re.findall(r"^libcrypt_la_SOURCES\s*\+=\s*(lib/\S+\.c)", txt, re.M):
        if extra not in srcs:
            srcs.append(extra)
    return srcs


def gen_headers(gendir, hashes=None):
    """Regenerate crypt.h, crypt-hashes.h, crypt-symbol-vers.h, libcrypt.map, xcrypt.h."""
    os.makedirs(gendir, exist_ok=True)
    scripts = os.path.join(REPO, "build-aux", "scripts")
    symmin = makefile_var("SYMVER_MIN", "GLIBC_2.0")
    symfloor = makefile_var("SYMVER_FLOOR", "GLIBC_2.2.5")
    compat = makefile_var("COMPAT_ABI", "yes")
    if hashes is None:
        henabled = makefile_var("hashes_enabled", "," + ",".join(ALL_HASHES) + ",")
    else:
        henabled = "," + ",".join(hashes) + ","
    cfg = os.path.join(REPO, "config.h")
    shutil.copyfile(cfg, os.path.join(gendir, "config.h"))
    env = dict(os.environ, LC_ALL="C")
    lib = os.path.join(REPO, "lib")

    def gen(out, args):
        data = run(["perl"] + args, env=env)
        path = os.path.join(gendir, out)
        old = None
        if os.path.exists(path):
            old = open(path, "rb").read()
        if old != data:
            open(path, "wb").write(data)

    symargs = ["SYMVER_MIN=" + symmin, "SYMVER_FLOOR=" + symfloor, "COMPAT_ABI=" + compat]
    gen("libcrypt.map", [os.path.join(scripts, "gen-libcrypt-map")] + symargs + [os.path.join(lib, "libcrypt.map.in")])
    gen("crypt-hashes.h", [os.path.join(scripts, "gen-crypt-hashes-h"), os.path.join(lib, "hashes.conf"), henabled])
    gen("crypt-symbol-vers.h", [os.path.join(scripts, "gen-crypt-symbol-vers-h"), "yes"] + symargs + [os.path.join(lib, "libcrypt.map.in")])
    gen("crypt.h", [os.path.join(scripts, "gen-crypt-h"), os.path.join(lib, "crypt.h.in"), cfg, os.path.join(lib, "hashes.conf"), henabled])
    gen("xcrypt.h", [os.path.join(scripts, "gen-crypt-h"), os.path.join(lib, "xcrypt.h.in"), cfg])
    return gendir


VARIANTS = {
    # name: (cc, cflags, kind)
    "o2":   ("gcc", ["-O2", "-g0"], "a"),
    "o1":   ("gcc", ["-O1", "-g0"], "a"),
    "o0":   ("gcc", ["-O0", "-g0"], "a"),
    "asan": ("gcc", ["-O1", "-g", "-fsanitize=address,undefined", "-fno-sanitize-recover=all",
                     "-fno-omit-frame-pointer"], "a"),
    "msan": ("clang", ["-O1", "-g", "-fsanitize=memory", "-fno-omit-frame-pointer"], "a"),
    "tsan": ("clang", ["-O1", "-g", "-fsanitize=thread"], "a"),
    "pic":  ("gcc", ["-O2", "-g0", "-fPIC", "-DPIC"], "so-open"),
    "hook": ("gcc", ["-O1", "-g0", "-fPIC", "-DPIC", "-fsanitize=thread", "-fno-builtin"], "so-open"),
    "so":   ("gcc", ["-O2", "-g0", "-fPIC", "-DPIC"], "so-versioned"),
}


def _compile_one(cc, flags, incs, src, obj):
    base = [cc] + flags + incs + ["-DHAVE_CONFIG_H", "-DIN_LIBCRYPT", "-w"]
    pre = subprocess.run(base + ["-E", "-P", src], stdout=subprocess.PIPE, stderr=subprocess.PIPE)
    if pre.returncode != 0:
        raise BuildError("preprocess failed: %s\n%s" % (src, pre.stderr.decode(errors="replace")[-4000:]))
    h = hashlib.sha256()
    h.update(pre.stdout)
    h.update(("\0".join(flags) + "\0" + cc_version(cc) + "\0" + os.path.basename(src)).encode())
    key = h.hexdigest()
    cpath = os.path.join(CACHE, key[:2], key + ".o")
    if not os.path.exists(cpath):
        os.makedirs(os.path.dirname(cpath), exist_ok=True)
        tmp = cpath + ".%d.tmp" % os.getpid()
        run(base + ["-c", src, "-o", tmp])
        os.replace(tmp, cpath)
    shutil.copyfile(cpath, obj)
    return key


def build_variant(name, hashes=None, tag=None):
    """Build one variant; returns dict(dir, gen, lib, objs, incs)."""
    cc, flags, kind = VARIANTS[name]
    vname = name if tag is None else "%s-%s" % (name, tag)
    vdir = os.path.join(BUILD, vname)
    objdir = os.path.join(vdir, "obj")
    os.makedirs(objdir, exist_ok=True)
    gendir = gen_headers(os.path.join(vdir, "gen"), hashes)
    incs = ["-I" + gendir, "-I" + os.path.join(REPO, "lib")]
    srcs = lib_sources()
    objs = []
    jobs = []
    with ThreadPoolExecutor(NCPU) as ex:
        for s in srcs:
            obj = os.path.join(objdir, os.path.basename(s)[:-2] + ".o")
            objs.append(obj)
            jobs.append(ex.submit(_compile_one, cc, flags, incs, os.path.join(REPO, s), obj))
        keys = [j.result() for j in jobs]
    for f in os.listdir(objdir):
        if os.path.join(objdir, f) not in objs:
            os.unlink(os.path.join(objdir, f))
    info = dict(name=vname, dir=vdir, gen=gendir, objs=objs, incs=incs, cc=cc, flags=flags,
                key=hashlib.sha256("".join(keys).encode()).hexdigest())
    if kind == "a":
        lib = os.path.join(vdir, "libxc.a")
        if os.path.exists(lib):
            os.unlink(lib)
        run(["ar", "rcs", lib] + objs)
        info["lib"] = lib
    elif kind == "so-open":
        # the versioned shared library (compat symbols included) with its internal symbols left visible:
        # the tree's version script minus the 'local: *;' catch-all
        lib = os.path.join(vdir, "libxc.so")
        mp = open(os.path.join(gendir, "libcrypt.map")).read()
        mp = re.sub(r"local:\s*\*;", "", mp)
        omap = os.path.join(vdir, "open.map")
        open(omap, "w").write(mp)
        run([cc, "-shared", "-o", lib] + objs + ["-Wl,--version-script=" + omap, "-Wl,-z,relro", "-Wl,-z,now"])
        info["lib"] = lib
    elif kind == "so-versioned":
        lib = os.path.join(vdir, "libcrypt.so.1")
        run([cc, "-shared", "-o", lib] + objs +
            ["-Wl,--version-script=" + os.path.join(gendir, "libcrypt.map"), "-Wl,-soname,libcrypt.so.1",
             "-Wl,-z,relro", "-Wl,-z,now", "-Wl,-z,defs"])
        info["lib"] = lib
    return info


def build_harness(variant, sources, out, extra_flags=(), libs=(), opt="-O1"):
    """Compile harness sources against a built variant."""
    cc = variant["cc"]
    san = [f for f in variant["flags"] if f.startswith("-fsanitize") or f.startswith("-fno-sanitize")]
    if variant["name"].startswith("hook"):
        san = []
    hdir = os.path.join(VERIF, "harness")
    cmd = [cc, opt, "-g", "-std=gnu11", "-D_GNU_SOURCE", "-Wall", "-Wno-unused-function", "-Wno-unused-variable",
           "-Wno-unused-but-set-variable",
           "-I" + hdir, "-I" + os.path.join(VERIF, "ref")] + variant["incs"] + san + list(extra_flags)
    cmd += ["-o", out] + list(sources)
    if variant["lib"].endswith(".a"):
        # link the objects themselves: an archive member defining crypt/crypt_r would be skipped in favour of the
        # sanitizer runtimes' interceptors of the same name
        cmd += variant["objs"]
    else:
        d = os.path.dirname(variant["lib"])
        cmd += [variant["lib"], "-Wl,-rpath," + d]
    cmd += list(libs) + ["-lpthread", "-ldl"]
    run(cmd)
    return out


if __name__ == "__main__":
    for v in sys.argv[1:] or ["o2"]:
        i = build_variant(v)
        print(v, i["lib"], len(i["objs"]), "objects")
