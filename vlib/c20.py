"""C20: binary interface compatibility with the released libcrypt.so.1 (complete enumeration of the
finite interface: exported (symbol, version) pairs, struct layout and constants, and an old client
run against both libraries)."""
import os, re, subprocess, time
from . import build

RELEASED_LIB = "/lib/x86_64-linux-gnu/libcrypt.so.1"
RELEASED_INC = "/usr/include"
LITERALS = {
    "sizeof(struct crypt_data)": 32768, "offsetof(output)": 0, "offsetof(setting)": 384, "offsetof(input)": 768,
    "offsetof(reserved)": 1280, "offsetof(initialized)": 2047, "offsetof(internal)": 2048,
    "CRYPT_OUTPUT_SIZE": 384, "CRYPT_MAX_PASSPHRASE_SIZE": 512, "CRYPT_GENSALT_OUTPUT_SIZE": 192,
    "CRYPT_DATA_RESERVED_SIZE": 767, "CRYPT_DATA_INTERNAL_SIZE": 30720,
    "CRYPT_SALT_OK": 0, "CRYPT_SALT_INVALID": 1, "CRYPT_SALT_METHOD_DISABLED": 2, "CRYPT_SALT_METHOD_LEGACY": 3, "CRYPT_SALT_TOO_CHEAP": 4,
}


def dynsyms(path):
    out = subprocess.run(["readelf", "--dyn-syms", "-W", path], stdout=subprocess.PIPE).stdout.decode()
    syms = set()
    for line in out.splitlines():
        f = line.split()
        if len(f) < 8 or f[6] == "UND" or f[4] != "GLOBAL" or f[3] != "FUNC":
            continue
        m = re.match(r"^([A-Za-z_0-9]+)(@@?)([A-Za-z_0-9.]+)$", f[7])
        if m:
            syms.add((m.group(1), m.group(3), m.group(2) == "@@"))
    return syms


def run(job, tier, deadline_s):
    t0 = time.time()
    agg = dict(stats={}, samples=[], viols=[], done=1, complete=1, errors=[], stderr=[], hsets={}, nshards=1)
    st = agg["stats"]

    def viol(sig, **case):
        case.setdefault("replay", "")
        agg["viols"].append((sig, case))

    var = build.build_variant("so")
    fresh = var["lib"]
    wd = os.path.join(var["dir"], "c20")
    os.makedirs(wd, exist_ok=True)
    src = os.path.join(build.VERIF, "c20")
    # (1) exported (symbol, version, default) triples
    rel, new = dynsyms(RELEASED_LIB), dynsyms(fresh)
    st["released_symbol_versions"] = len(rel)
    st["fresh_symbol_versions"] = len(new)
    for s in sorted(rel - new):
        other = [x for x in new if x[0] == s[0] and x[1] == s[1]]
        viol("missing-symbol-version/%s@%s" % (s[0], s[1]) if not other else "default-version-changed/%s@%s" % (s[0], s[1]),
             symbol=s[0], version=s[1], default_in_release=s[2], fresh_has=[list(x) for x in new if x[0] == s[0]])
    st["evaluations"] = len(rel)
    # the export set of the pinned upstream configuration (recorded in c20/upstream_exports.txt; the installed Debian build is a subset of it)
    pinned = set()
    for line in open(os.path.join(src, "upstream_exports.txt")):
        f = line.split()
        if len(f) == 3 and not line.startswith("#"):
            pinned.add((f[0], f[1], f[2] == "default"))
    st["pinned_symbol_versions"] = len(pinned)
    if len(pinned) < 25:
        agg["errors"].append("c20/upstream_exports.txt is incomplete")
    for s in sorted(pinned - new - rel):
        other = [x for x in new if x[0] == s[0] and x[1] == s[1]]
        viol("missing-symbol-version/%s@%s" % (s[0], s[1]) if not other else "default-version-changed/%s@%s" % (s[0], s[1]),
             symbol=s[0], version=s[1], default_in_release=s[2], fresh_has=[list(x) for x in new if x[0] == s[0]], reference="c20/upstream_exports.txt")
    st["evaluations"] += len(pinned - rel)
    # (2) layout / constants probe against both headers
    outs = {}
    for tag, inc in (("tree", var["gen"]), ("released", RELEASED_INC)):
        exe = os.path.join(wd, "probe_" + tag)
        try:
            build.run(["gcc", "-O0", "-I" + inc, os.path.join(src, "probe.c"), "-o", exe])
        except build.BuildError as e:
            viol("header-does-not-compile/" + tag, error=str(e)[-600:])
            continue
        outs[tag] = dict(l.split("=", 1) for l in subprocess.run([exe], stdout=subprocess.PIPE).stdout.decode().splitlines() if "=" in l)
    if "tree" in outs and "released" in outs:
        for k in sorted(set(outs["tree"]) | set(outs["released"])):
            a, b = outs["tree"].get(k), outs["released"].get(k)
            st["evaluations"] += 1
            st["layout_items"] = st.get("layout_items", 0) + 1
            if a != b:
                viol("layout-or-constant-differs-from-release/%s" % k, item=k, tree=a, released=b)
            elif k in LITERALS and int(a) != LITERALS[k]:
                viol("layout-or-constant-differs-from-documented/%s" % k, item=k, tree=a, documented=LITERALS[k])
        agg["samples"].append({"probe": outs["tree"]})
    # (3) old client against released and fresh library
    client = os.path.join(wd, "client")
    build.run(["gcc", "-O1", "-I" + RELEASED_INC, os.path.join(src, "client.c"), "-o", client, RELEASED_LIB, "-ldl"])
    pairs = "".join("%s %s\n" % (s[0], s[1]) for s in sorted(rel)).encode()
    libdir = os.path.join(wd, "lib")
    os.makedirs(libdir, exist_ok=True)
    link = os.path.join(libdir, "libcrypt.so.1")
    if os.path.lexists(link):
        os.unlink(link)
    os.symlink(fresh, link)
    env_rel = dict(os.environ)
    env_rel.pop("LD_LIBRARY_PATH", None)
    env_new = dict(os.environ, LD_LIBRARY_PATH=libdir)
    r1 = subprocess.run([client, "v"], input=pairs, stdout=subprocess.PIPE, stderr=subprocess.PIPE, env=env_rel)
    r2 = subprocess.run([client, "v"], input=pairs, stdout=subprocess.PIPE, stderr=subprocess.PIPE, env=env_new)
    if b"/lib/x86_64-linux-gnu/libcrypt.so.1" not in r1.stderr or os.path.realpath(fresh).encode() not in r2.stderr.replace(link.encode(), os.path.realpath(fresh).encode()):
        if libdir.encode() not in r2.stderr:
            agg["errors"].append("client did not load the intended libraries: %r / %r" % (r1.stderr[-200:], r2.stderr[-200:]))
    if r1.returncode != 0:
        agg["errors"].append("old client fails against the released library itself (status %d)" % r1.returncode)
    t1, t2 = r1.stdout.decode(errors="replace").splitlines(), r2.stdout.decode(errors="replace").splitlines()
    st["transcript_lines"] = len(t1)
    st["evaluations"] += len(t1)
    st["distinct_nontrivial"] = len(set(t1))
    if r2.returncode != 0:
        viol("old-client-crashes-with-fresh-library", status=r2.returncode, stderr=r2.stderr.decode(errors="replace")[-600:])
    # the fresh library may export additional versions (extra lines); every line the released library produced must
    # reappear with the same result: compare by (request, occurrence) rather than by position
    def keyed(lines):
        d, seen = {}, {}
        for l in lines:
            k = l.split(" => ")[0] if " => " in l else l.split(":")[0] if l.startswith("dlvsym") else l.split("=")[0]
            n = seen.get(k, 0)
            seen[k] = n + 1
            d[(k, n)] = l
        return d
    k1, k2 = keyed(t1), keyed(t2)
    ndiff = 0
    for key in k1:
        a, b = k1[key], k2.get(key, "(missing)")
        if a != b:
            ndiff += 1
            if ndiff <= 8:
                viol("old-client-result-differs/%s" % key[0].split("|")[0][:60], request=key[0][:200], released=a[:300], fresh=b[:300])
    st["transcript_differences"] = ndiff
    for l in t2:
        if l.startswith("dlvsym") and l.endswith("MISSING"):
            viol("dlvsym-does-not-resolve/%s" % l.split()[1].rstrip(":"), line=l)
    agg["samples"] += [{"old_client_line": l} for l in t1[200:204]]
    # (4) compatibility names answer as their modern counterparts (within the fresh transcript)
    by = {}
    for l in t2:
        if " => " in l and "|" in l:
            head, res = l.split(" => ", 1)
            parts = head.split("|")
            by[(parts[0], tuple(parts[1:]))] = res
    alias = {"xcrypt@XCRYPT_2.0": "crypt", "fcrypt@GLIBC_2.2.5": "crypt", "crypt@GLIBC_2.2.5": "crypt", "xcrypt_r@XCRYPT_2.0": "crypt_r",
             "crypt_r@GLIBC_2.2.5": "crypt_r", "xcrypt_gensalt@XCRYPT_2.0": "crypt_gensalt", "crypt_gensalt@OW_CRYPT_1.0": "crypt_gensalt",
             "xcrypt_gensalt_r@XCRYPT_2.0": "crypt_gensalt_rn", "crypt_gensalt_r@XCRYPT_2.0": "crypt_gensalt_rn", "crypt_gensalt_rn@OW_CRYPT_1.0": "crypt_gensalt_rn"}
    for (name, args), res in by.items():
        if name in alias and (alias[name], args) in by:
            st["alias_comparisons"] = st.get("alias_comparisons", 0) + 1
            if by[(alias[name], args)] != res:
                viol("compat-name-differs-from-modern/%s" % name, args=list(args), compat=res, modern=by[(alias[name], args)])
    agg["wall"] = time.time() - t0
    return agg
