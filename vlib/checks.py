"""Registry of property checks: which harness runs on which build variant, and how the
harness counters become the evidence coverage block."""

RT = ["vh_rt.c"]


def _cov(rule, extra=None):
    def f(stats, tier):
        c = dict(evaluations=int(stats.get("evaluations", 0)),
                 distinct_nontrivial=int(stats.get("distinct_nontrivial", 0)),
                 rule=rule)
        if extra:
            c.update(extra(stats, tier))
        return c
    return f


CHECKS = {}

CHECKS["C13"] = dict(
    level="exploration",
    jobs=lambda tier: [dict(name="c13", variant="o2", sources=["e_c13.c"] + RT)] + (
        [dict(name="c13asan", variant="asan", sources=["e_c13.c"] + RT)] if tier == "thorough" else []),
    coverage=_cov("complete grid output_size -2..256 x 20 prefix arguments (16 tags, 'ab', NULL, unknown, full settings) x 29 count "
                  "classes x nrbytes 0..70; every cell is one crypt_gensalt_rn call inside a canaried arena, plus one "
                  "192-byte reference call per column; distinct_nontrivial = distinct (output_size, returned setting) "
                  "pairs among successful cells"),
    assumptions=["sizes larger than the real buffer are caller contract violations and are not exercised",
                 "random-byte content is one fixed position-distinct pattern; C12 varies the bytes"],
    nonvacuous=lambda s, t: None if s.get("successes", 0) > 1000 and s.get("failures", 0) > 1000 else "no successes or no failures seen",
)

CHECKS["C12"] = dict(
    level="exploration",
    jobs=lambda tier: [dict(name="c12", variant="o2", sources=["e_c12.c"] + RT)],
    coverage=_cov("14 salted prefix arguments x nrbytes {0..70,128,255,256} x base fills {zeros, position-distinct}: one "
                  "crypt_gensalt_rn call, independent decoding of the salt field, then one call per bit of the consumed "
                  "window (bit flipped); plus rbytes==NULL x 16 prefixes x 3 repetitions under the entropy seam; "
                  "distinct_nontrivial = distinct (nrbytes, generated setting) pairs with a non-empty decodable salt"),
    assumptions=["quality of the OS generator is not examined; the seam shows the library asks arc4random_buf for the hashes.conf amount",
                 "sha1crypt bytes 0..3 and the count perturbation are not part of the injective salt window"],
    nonvacuous=lambda s, t: None if s.get("bitflips", 0) > 5000 and s.get("refused", 0) > 50 else "too few bit flips or refusals",
)
