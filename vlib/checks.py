"""Registry of property checks: which harness runs on which build variant, and how the
harness counters become the evidence coverage block."""

RT = ["vh_rt.c"]
from . import c20 as _c20
from . import c19 as _c19
from . import c14tla as _c14tla
from . import c02b


def _cov(rule, extra=None):
    def f(stats, tier):
        c = dict(evaluations=int(stats.get("evaluations", 0)),
                 distinct_nontrivial=int(stats.get("distinct_nontrivial", 0)),
                 rule=rule)
        if extra:
            c.update(extra(stats, tier))
        return c
    return f


CHECKS = {}

CHECKS["C13"] = dict(
    level="exploration",
    jobs=lambda tier: [dict(name="c13", variant="o2", sources=["e_c13.c"] + RT)] + (
        [dict(name="c13asan", variant="asan", sources=["e_c13.c"] + RT)] if tier == "thorough" else []),
    coverage=_cov("complete grid output_size -2..256 x 20 prefix arguments (16 tags, 'ab', NULL, unknown, full settings) x 29 count "
                  "classes x nrbytes 0..70; every cell is one crypt_gensalt_rn call inside a canaried arena, plus one "
                  "192-byte reference call per column; distinct_nontrivial = distinct (output_size, returned setting) "
                  "pairs among successful cells; since rounds 5-7: an rbytes == NULL column (entropy seam), arbitrary errno on entry, and shorter-than-full results must keep tag and cost field complete plus one salt character and (within budget) be accepted by crypt_rn"),
    assumptions=["sizes larger than the real buffer are caller contract violations and are not exercised",
                 "random-byte content is one fixed position-distinct pattern; C12 varies the bytes"],
    nonvacuous=lambda s, t: None if s.get("successes", 0) > 1000 and s.get("failures", 0) > 1000 else "no successes or no failures seen",
    manifest=dict(
        text="Bounded exhaustive exploration: the property's finite grid (every output_size -2..256 x every prefix argument x 29 "
             "count classes x nrbytes 0..70, 10.7 M calls) is enumerated completely against the real crypt_gensalt_rn inside a "
             "canaried arena with abort/assert/signal captured as data; relational oracles (prefix-of-full, monotonicity, 192 suffices) "
             "are evaluated per column. Exactly the quantifier of the property except 'random large values'.",
        note="gcc -O2 build of the working tree (thorough: also ASan+UBSan); sizes beyond the real buffer are not exercised; one fixed entropy pattern.",
        technique="exhaustive enumeration of the complete finite argument grid against the implementation (bounded model checking of inputs)",
        ref="DESIGN.md 3/C13"),
)

CHECKS["C12"] = dict(
    level="exploration",
    jobs=lambda tier: [dict(name="c12", variant="o2", sources=["e_c12.c"] + RT)],
    coverage=_cov("14 salted prefix arguments x nrbytes {0..70,128,255,256} x base fills {zeros, position-distinct}: one "
                  "crypt_gensalt_rn call, independent decoding of the salt field, then one call per bit of the consumed "
                  "window (bit flipped); plus rbytes==NULL x 16 prefixes x 3 repetitions under the entropy seam; "
                  "distinct_nontrivial = distinct (nrbytes, generated setting) pairs with a non-empty decodable salt"),
    assumptions=["quality of the OS generator is not examined; the seam shows the library asks arc4random_buf for the hashes.conf amount",
                 "sha1crypt bytes 0..3 and the count perturbation are not part of the injective salt window"],
    nonvacuous=lambda s, t: None if s.get("bitflips", 0) > 5000 and s.get("refused", 0) > 50 else "too few bit flips or refusals",
    manifest=dict(
        text="Bounded exhaustive exploration: every salted prefix x every nrbytes 0..70,128,255,256 x two base fills, and from each "
             "base point every single-bit deviation inside the consumed window (about 245 k generator executions); the salt is decoded by "
             "an independent decoder and must equal the consumed bytes (constructive injectivity); size floors and EINVAL-for-too-short "
             "are checked on every cell; the rbytes==NULL path is run under an entropy seam that owns the OS source.",
        note="independent per-format decoders written from crypt.5 / format definitions; the OS generator itself is trusted; byte contents other than the two base fills are reached only through single-bit deviations.",
        technique="exhaustive enumeration of (prefix, nrbytes) cells with all single-bit deviations of the entropy input, against the implementation",
        ref="DESIGN.md 3/C12"),
)

CHECKS["C11"] = dict(
    level="exploration",
    jobs=lambda tier: [dict(name="c11", variant="o2", sources=["e_c11.c"] + RT)],
    coverage=_cov("16 prefixes x every count in {0..40, 2^w + 0..40 for w in 8, 16, 31, 32, 33, 48, 63 (what a narrower integer type would truncate to a small value), 2^k-1/2^k/2^k+1 for k=1..63, 10^k-1/10^k/10^k+1 for k=1..19, the documented "
                  "clamp/default boundaries, ULONG_MAX} x 4 entropy fills; the cost field of each generated setting is decoded by an "
                  "independent decoder and compared with the documented function of count; distinct_nontrivial = distinct generated "
                  "settings among accepted counts"),
    assumptions=["defaults and clamps are taken from crypt.5, crypt_gensalt.3 and the property text",
                 "that crypt applies the encoded cost is C02's subject (hash equals the published algorithm for that setting)"],
    nonvacuous=lambda s, t: None if s.get("accepted", 0) > 2000 and s.get("expected_rejections", 0) > 2000 else "too few accepted or rejected counts",
    manifest=dict(
        text="Bounded exhaustive exploration of the count axis: every value of the small ranges, every power of two and of ten +-1 up to "
             "ULONG_MAX and every documented boundary, for all 16 prefixes and 4 entropy fills (about 19 k generator executions), each "
             "decoded independently and compared with the documented default/clamp/reject function.",
        note="documented function written from crypt.5/crypt_gensalt.3/property text; 64-bit values between the enumerated boundaries are covered by the piecewise-constant/linear structure of the clamp, not individually.",
        technique="exhaustive enumeration of boundary-complete count values x prefixes against the implementation with an independent cost decoder",
        ref="DESIGN.md 3/C11"),
)

CHECKS["C10"] = dict(
    level="exploration",
    jobs=lambda tier: [dict(name="c10", variant="o2", sources=["e_c10.c"] + RT)],
    coverage=_cov("49 prefix arguments (16 tags, NULL, a full hash and a bare setting of each method) x accepted count classes (all values "
                  "of the small ranges) x nrbytes {0..70,128,255,256} x 3 byte fills: crypt_gensalt, crypt_gensalt_rn(192), (256), "
                  "crypt_gensalt_ra and a repeat are compared; shape/tag/checksalt on every success; on the hashing sub-grid (cost within "
                  "budget) crypt_rn with 3 phrase lengths must succeed keeping the setting as literal prefix and crypt(P, crypt_gensalt()) "
                  "uncopied must agree; distinct_nontrivial = distinct generated settings; since rounds 6-7: a byte-value sweep (256 constant + 64/256 stepped fills x every tag, all hashed), nrbytes 0..256 (quick: dense 129..200 and every 5th) and the same request into 384- and 1024-byte buffers under the same obligations"),
    assumptions=["hashing is done only where the decoded cost is within the compute budget (bcrypt<=6/8, rounds<=20000, <=32/256 MiB)",
                 "method selected by a prefix argument is modelled from crypt.5 (leading tag; NULL = $y$)"],
    nonvacuous=lambda s, t: None if s.get("hashes", 0) > 1000 and s.get("generated", 0) > 10000 else "too few hashes or generated settings",
    deadline=dict(quick=240, thorough=1500),
    manifest=dict(
        text="Bounded exhaustive exploration: the full product of prefix arguments x accepted counts x nrbytes x byte fills is run through all "
             "three generator entry points (plus a determinism repeat), and every generated setting inside the compute budget is fed to the real "
             "crypt_rn/crypt for three phrase lengths; the oracle is structural (tag, alphabet, checksalt, literal-prefix, entry-point equality).",
        note="gcc -O2 build of the working tree; costs above the budget are generated and shape-checked but not hashed; mmap seam caps a single region at 40 MiB (quick) / 300 MiB (thorough).",
        technique="exhaustive enumeration of the generator argument grid with generated settings replayed into crypt on the implementation",
        ref="DESIGN.md 3/C10"),
)

CHECKS["C01"] = dict(
    level="exploration",
    jobs=lambda tier: [dict(name="c01", variant="o2", sources=["e_c01.c"] + RT)],
    coverage=_cov("slab b: 16 methods x 2 canonical settings x every phrase length 0..511; slab a: every setting of the per-method grammar "
                  "generators (prefix variants x cost spellings x salt lengths incl. over-cap x terminator shapes, with/without hash part; "
                  "12.6 k quick / 32 k thorough, minus those above the compute budget) x boundary phrase lengths x fills A,P; slab c: DES "
                  "salts (256 quick / all 4096 thorough) x 10 setting lengths x 23 phrase lengths; slab d: for successes the hash part "
                  "replaced by 3 same-length texts of the method's hash alphabet and truncated to the setting part; "
                  "distinct_nontrivial = distinct successful result strings; every call is entered with arbitrary object contents and an arbitrary errno; slab e: salt lengths up to where the echoed setting alone exceeds 384 for sunmd5, scrypt and five sha1crypt iteration widths; the grammar includes the yescrypt (N,p) grid around N/p = 3..4; thorough adds one nine-digit rounds= per sha-crypt method; slab i: 22 option-field spellings (explicit default included) x 17 salts that look like an option field x 3 terminators"),
    assumptions=["only successful first calls oblige anything",
                 "settings whose decoded cost exceeds the compute budget are not hashed",
                 "phrase contents come from two fills (ASCII cycle, position-distinct 8-bit)"],
    nonvacuous=lambda s, t: None if s.get("successes", 0) > 20000 and s.get("hash_part_variants", 0) > 1000 and s.get("first_call_failed", 0) > 1000 else "too few successes/variants/rejections",
    deadline=dict(quick=300, thorough=1700),
    manifest=dict(
        text="Bounded exhaustive exploration of the (phrase length, setting form) space against the real crypt_rn: every phrase length 0..511, "
             "every generated setting form of all 16 methods, every DES salt across the descrypt/bigcrypt dispatch seam; the oracle is "
             "differential (crypt(P,crypt(P,S)) == crypt(P,S); hash-part substitutions and setting-part truncations reproduce H), no stored expectations.",
        note="gcc -O2 build of the working tree; grammar generators written from crypt.5; byte contents limited to two fills; compute budget excludes very high costs.",
        technique="exhaustive enumeration of setting-form x phrase-length grids on the implementation with a differential round-trip oracle",
        ref="DESIGN.md 3/C01"),
)

CHECKS["C06"] = dict(
    level="exploration",
    jobs=lambda tier: [dict(name="c06", variant="o2", sources=["e_c01.c"] + RT, args=["c06"])],
    coverage=_cov("the C01 enumeration (slabs a, b, c) with the shape oracle on every successful result (passwd-safe, same tag, full match of the "
                  "method's crypt.5 grammar incl. digest length and salt caps, accepted as setting, checksalt != INVALID, accepted as gensalt "
                  "prefix of the same method), plus per method 4096 (quick) / 20000 (thorough) distinct phrases at a cheap setting, requiring "
                  "every position of the hash portion to show exactly the number of characters its bit budget allows; "
                  "distinct_nontrivial = distinct successful result strings"),
    assumptions=["grammars are crypt.5's, widened where the documentation of the parsers accepts more (empty salts, $md5$rounds=, '$' in $7$ salts, any digit string as sha1crypt count, sha1crypt salts longer than 64)",
                 "$2x$: the result selects the same method as a gensalt prefix and that generator refuses by design (EINVAL)"],
    nonvacuous=lambda s, t: None if s.get("shape_checked", 0) > 20000 and s.get("positions_checked", 0) > 400 else "too few shapes or positions checked",
    deadline=dict(quick=300, thorough=1700),
    manifest=dict(
        text="Bounded exhaustive exploration: every successful result of the C01 grid (all phrase lengths, all generated setting forms, DES seam) "
             "plus a digest-diversity slab that makes every hash position take every value of its alphabet, each checked against the per-method "
             "grammar of crypt.5 and fed back to crypt_rn, crypt_checksalt and crypt_gensalt_rn.",
        note="grammars are an independent reading of crypt.5; the diversity slab shows value-dependent encoding paths are exercised (measured per position).",
        technique="exhaustive enumeration of the result space reachable from the setting-form x phrase-length grid, with grammar and re-acceptance oracles",
        ref="DESIGN.md 3/C06"),
)

CHECKS["C04"] = dict(
    level="exploration",
    jobs=lambda tier: [dict(name="c04asan", variant="asan", sources=["e_c04.c"] + RT),
                       dict(name="c04msan", variant="msan", sources=["e_c04.c"] + RT, flags=["-DVH_MSAN"])],
    coverage=_cov("on the ASan+UBSan build and again on the MSan build, every argument in an exact-size heap block: salt field of each of 16 "
                  "methods at every length 0..600 and {1000,4096,32767,32768,40000,70000}, with/without terminator; phrases of every length "
                  "0..600 and 4096; data object at each of 16 alignments x 2 fills x 4 entry points; crypt_rn sizes {INT_MIN,-1,0,1,2,3,13,383..385,"
                  "32767..32769} with a block of exactly that size; gensalt prefixes x counts x nrbytes x 15 output sizes; every generated "
                  "setting of the grammar; the complete single-edit neighbourhood (24 substitutions, deletion, duplication, truncation at every "
                  "position) of 56 base settings; canaries in data->setting/input; distinct_nontrivial = distinct successful result strings"),
    assumptions=["nrbytes < 0 with non-NULL rbytes and sizes larger than the real buffer are caller contract violations and are not exercised",
                 "a case interrupted by the 4 s per-case timer is counted budget_skipped, never a violation"],
    nonvacuous=lambda s, t: None if s.get("successes", 0) > 5000 and s.get("failures", 0) > 5000 else "too few successes/failures",
    deadline=dict(quick=400, thorough=1700),
    manifest=dict(
        text="Bounded exhaustive exploration with sanitizers as the oracle: the stated finite grids of lengths, positions, edits, alignments and "
             "size arguments are enumerated completely against the real entry points compiled with ASan+UBSan and with MSan; every string, "
             "object and buffer is an exact-size heap block and the application-owned fields carry canaries, so any out-of-bounds read/write, "
             "undefined operation, use of uninitialised memory or stray write is reported for the specific case.",
        note="gcc ASan+UBSan and clang MSan builds of the working tree; value space of bytes is 24 representative bytes per edited position; costs above the compute budget are cut by a per-case timer.",
        technique="exhaustive enumeration of argument-shape grids on the sanitizer-instrumented implementation (sanitizer + canaries as oracle)",
        ref="DESIGN.md 3/C04"),
)

CHECKS["C05"] = dict(
    level="exploration",
    jobs=lambda tier: [dict(name="c05", variant="o2", sources=["e_c05.c"] + RT)],
    coverage=lambda stats, tier: dict(
        evaluations=int(stats.get("evaluations", 0)),
        distinct_nontrivial=int(stats.get("distinct_nontrivial", 0)),
        rule="inputs: 3 base settings per method (two bare forms and a full hash) x every position x every byte value 1..255 and every "
             "truncation; 14 fixed invalid classes (tokens, NULLs, 512/513/600-byte phrases, ...) x 16 methods; every '$'+1- and 2-character "
             "unknown tag; crypt_rn sizes {INT_MIN,-1,0..4,383,384,sizeof-1}; each through crypt_rn/crypt_r/crypt_ra/crypt from 3 prior object "
             "states, and through crypt_ra on a handle it must first allocate (NULL) or replace (200 bytes holding nothing / a hash / a token), "
             "every call entered with an arbitrary errno (0, ENOENT, EAGAIN, EPERM) "
             " (quick: all 12 combinations for the property's special bytes and truncations, 2 combinations otherwise; thorough: all). "
             "histories: breadth-first search to closure over 3 entry points x 8 requests x 2 objects, state = hash of the objects' output/"
             "internal/reserved/initialized fields; distinct_nontrivial = distinct (setting, entry point, prior state) failing calls",
        states=int(stats.get("history_states", 0)), transitions=int(stats.get("history_transitions", 0)),
        history_closure=bool(stats.get("history_closure", 0)), history_depth=int(stats.get("max_history_depth", 0))),
    assumptions=["a NULL data pointer is a caller error and is not exercised",
                 "mandatory failures are those the property lists (forbidden byte, unknown prefix, NULL, 512+ bytes, '*' settings, small size); "
                 "any other edited setting may succeed, but then its result must be a well-formed hash of the method and not carry the previous call's digest",
                 "ENABLE_FAILURE_TOKENS is read from the tree's config.h"],
    nonvacuous=lambda s, t: None if s.get("failures", 0) > 50000 and s.get("successes", 0) > 5000 and s.get("history_states", 0) > 5 else "too few failures/successes/history states",
    deadline=dict(quick=300, thorough=1700),
    manifest=dict(
        text="Bounded exhaustive exploration: every byte value at every position of valid settings of all 16 methods, every truncation, every "
             "short unknown tag and the fixed invalid classes, through all four entry points and from three prior object states; plus an "
             "explicit-state breadth-first search to closure over call histories on two shared objects. The oracle is the fail-closed rule "
             "(NULL/token, errno class, '*0'/'*1' output that is itself rejected, never the earlier hash) evaluated on every call.",
        note="gcc -O2 build; the generic character rule and the token rule are small independent models; which malformed-parameter edits fail is not "
             "prescribed, only that a success is a real, fresh hash.",
        technique="exhaustive enumeration of byte x position x entry point x prior-state grids, and explicit-state BFS to closure over call histories, on the implementation",
        ref="DESIGN.md 3/C05"),
)

CHECKS["C03"] = dict(
    level="exploration",
    jobs=lambda tier: [dict(name="c03", variant="o2", sources=["e_c03.c"] + RT)],
    coverage=_cov("per method, with H = crypt(P,S): (a) P of the full significant window (511 / 72 bcrypt / 128 bigcrypt / 8 descrypt): at every byte "
                  "position the perturbations {bit 0, bit 6, a different low-7-bit value, bit 7 where the method treats it as significant}; "
                  "(b) every length 0..window: positions {0, L/2, L-1}, truncation by one, extension by one; (c) all strings of length <= 3 (quick) / "
                  "<= 4 (thorough) over a 4-letter alphabet hash pairwise differently; (d) every single-character change of the salt (3 "
                  "replacements) and a cost step, for 2 phrases. Oracle: crypt(P',H) != H; for (d) different canonical setting => different hash part. "
                  "quick thins positions/lengths for sha256/512crypt, sunmd5, bcrypt to the boundary set plus every 8th; "
                  "distinct_nontrivial = distinct results of perturbed phrases + small-scope phrases; (e) a 0x80 / 0xFF byte at every position with every other position perturbed; (f) every salt length of the accepted range and beyond (sha-crypt to 40, md5crypt to 24) x positions plus a cost step at each length; a character inside the documented significant salt length (md5crypt 8, sha-crypt 16, otherwise the whole salt) must change the hash part even when the echoed setting drops it; (g) every value 1..200 of yescrypt r, p, t pairwise"),
    assumptions=["8th-bit perturbations are not applied to DES-based methods, $2x$ and $2a$ (documented exemptions); their phrases are 7-bit",
                 "equivalences inherent to the specified algorithms (HMAC key vs SHA1(key) for sha1crypt) are outside the quantifier"],
    nonvacuous=lambda s, t: None if s.get("perturbations", 0) > 20000 and s.get("salt_changes", 0) > 400 else "too few perturbations",
    deadline=dict(quick=300, thorough=1700),
    manifest=dict(
        text="Bounded exhaustive exploration of the property's own perturbation family: every byte position of the significant window, every "
             "phrase length with truncation/extension, a complete small scope of short phrases, and every single-character salt change, all "
             "verified against the real crypt_rn in the authentication direction (hash the other phrase with H as setting).",
        note="gcc -O2 build; perturbation values are 3-4 per position, not all 255; one canonical setting per method for the phrase slabs.",
        technique="exhaustive enumeration of position/length/salt-character perturbations on the implementation with an inequality oracle",
        ref="DESIGN.md 3/C03"),
)

CHECKS["C16"] = dict(
    level="exploration",
    jobs=lambda tier: [dict(name="c16", variant="o2", sources=["e_c16.c"] + RT, libs=["-lgcrypt"], flags=["-DHAVE_CONFIG_H"])],
    coverage=_cov("MD4, MD5, SHA-1, SHA-256, SHA-512, Streebog-256/512: every length 0..1100 x 4 byte fills one-shot against libgcrypt; for each "
                  "length every two-way split (<= 320 quick, all thorough), byte-at-a-time, 7 strides, every three-way split (<= 72 quick / 160 "
                  "thorough), source alignments 1..15; HMAC-SHA1 and HMAC-SHA256: key 0..200 x message 0..200 (+ streamed two-way splits); "
                  "HMAC-Streebog-256: key 32..64 x message 0..300 x 2 fills; PBKDF2-HMAC-SHA256: 16 password x 16 salt boundary lengths x "
                  "iterations {1,2,3,10,50} (all 1..50 thorough) x 10 dkLen; distinct_nontrivial = distinct reference digests; PBKDF2: every salt length 0..200 x 16 password lengths and every password length 0..200 x 19 salt lengths"),
    assumptions=["libgcrypt 1.10 is the reference implementation of the standards", "message contents: 4 fixed fills (position-distinct, all 0xff, aligned 0xff runs, 0xff with varying tail)"],
    nonvacuous=lambda s, t: None if s.get("two_way_splits", 0) > 100000 and s.get("hmac_cases", 0) > 30000 and s.get("pbkdf2_cases", 0) > 5000 else "too few cases",
    deadline=dict(quick=300, thorough=1700),
    manifest=dict(
        text="Bounded exhaustive exploration of the (length, chunking, alignment) space of every digest/MAC/KDF primitive through the library's "
             "internal API, compared with an independent implementation (libgcrypt): every length over 8-17 block sizes, every split point, "
             "every key length across the block boundary.",
        note="libgcrypt is trusted as the standard; byte contents come from 4 fills chosen to drive carries (all-0xff blocks) as well as ordinary data.",
        technique="exhaustive enumeration of length x split-point x alignment grids on the implementation against a reference implementation",
        ref="DESIGN.md 3/C16"),
)

CHECKS["C02"] = dict(
    level="exploration",
    jobs=lambda tier: [dict(name="c02", variant="o2", sources=["e_c02.c"] + RT, libs=["-lgcrypt"]),
                       dict(name="c02bcrypt", variant="pic", script=c02b.run)],
    coverage=_cov("about 560 settings over the 16 methods (every salt length, cost spellings min/default-explicit/others, yescrypt flavours "
                  "0/WORM/RW with p,t fields, scrypt N 2^2..2^10 x r{1,2,8} x p{1,2,3}, bsdicrypt counts x single-character salt changes, bcrypt 4 "
                  "subtypes x cost 4..6); primary settings x (36 boundary lengths x 4 fills + every length 0..511 x 2 fills + small scope + 8-bit "
                  "specials), other settings x 12 boundary lengths. Every result is compared with the released libxcrypt 4.4.33 and, for md5crypt, "
                  "sha256crypt, sha512crypt, sha1crypt, NT, descrypt, bigcrypt, bsdicrypt, scrypt, yescrypt flavour 0 and the gost-yescrypt outer "
                  "layer, with an independent specification-level model; job c02bcrypt: 4 bcrypt subtypes x costs x 2-6 salts x (every phrase length "
                  "0..89 thorough / 33 boundary lengths quick, 3 fills incl. all-8-bit and mixed, an 8-bit byte at every position of keys of "
                  "length 1..8, the published sign-extension vectors) against a Python eksblowfish model incl. the $2x$ bug and the $2a$ "
                  "counter-measure; distinct_nontrivial = distinct successful hash strings; since rounds 5-7: salt-length sweeps up to each method's limit (sha1crypt 1..325, scrypt 0..300, sunmd5, every encodable yescrypt length), yescrypt cost fields of both encoding sizes, garbage pattern and entry errno derived from the case"),
    assumptions=["libxcrypt 4.4.33 as installed in the image is the cross-release reference; libgcrypt 1.10 provides the digests for the models",
                 "yescrypt RW/WORM flavours and sunmd5 rest on the released library only (identical across releases, not re-derived from the papers)",
                 "bcrypt model: ref/ref_bcrypt.py, boxes derived from pi at run time, checked against six published crypt_blowfish vectors on every run; costs 4..5 quick, 4..7 thorough",
                 "the bit-level reference DES is cross-checked against libgcrypt's DES on every run"],
    nonvacuous=lambda s, t: None if s.get("release_comparisons", 0) > 20000 and s.get("model_comparisons", 0) > 10000 and s.get("bcrypt_model_comparisons", 0) > 1500 and s.get("bcrypt_model_2a_countermeasure_cases", 0) > 3 else "too few comparisons",
    deadline=dict(quick=400, thorough=1700),
    manifest=dict(
        text="Bounded exhaustive exploration of the (phrase length, byte fill, salt length, cost spelling) grid for all 16 methods, every result "
             "compared byte-for-byte with two independent oracles: the released library (cross-release) and specification-level re-implementations "
             "over libgcrypt (cross-implementation).",
        note="reference models are hand-written from the public specifications; costs are bounded by the compute budget (rounds <= 10000, bcrypt <= 6, (ye)scrypt <= 1 MiB-ish).",
        technique="exhaustive enumeration of length x fill x salt x cost grids on the implementation against reference implementations",
        ref="DESIGN.md 3/C02"),
)

CHECKS["C18"] = dict(
    level="exploration",
    jobs=lambda tier: [dict(name="c18", variant="o2", sources=["e_c18.c"] + RT),
                       dict(name="c18cfg", variant="o1", script=_c19.run_c18)],
    coverage=_cov("every byte string of length <= 3 (16.6 M) and every printable string of length 4 (78 M) classified by crypt_checksalt and by an "
                  "independent classifier; crypt_rn run on every string of length <= 3 and on the method-shaped length-4 strings; every "
                  "'$'+tag+'$' with tags of length <= 3 over 65 characters; every generated setting of the grammar (and each successful result); "
                  "every recognised string re-classified with 3 tails (1, 40 and 400 characters); crypt_preferred_method and NULL-prefix gensalt "
                  "vs preferred-prefix gensalt for 50 entropy fills x 3 counts; job c18cfg repeats the preferred-method / checksalt requests in compiled "
                  "hash selections; distinct_nontrivial = distinct recognised short strings"),
    assumptions=["the strong set is taken from the property text ($y$, $gy$, $7$, $2b$, $2y$, $2a$, $6$)", "job c18cfg: 14 (quick) / 34 (thorough) compiled selections - every subset of the default-capable methods (yescrypt, bcrypt, sha512crypt) x backgrounds - compared on the requests C18 names (preferred method, its checksalt class, NULL-prefix generation, the header macro, checksalt of every method's settings); the remaining selections are C19's subject"],
    nonvacuous=lambda s, t: None if s.get("length4", 0) > 70000000 and s.get("crypt_calls", 0) > 1000000 and s.get("recognised", 0) > 100000 else "enumeration incomplete",
    deadline=dict(quick=300, thorough=1200),
    manifest=dict(
        text="Exhaustive enumeration of the complete space of short settings (all byte strings up to length 3, all printable strings of length 4, "
             "all short tags) against crypt_checksalt, crypt_rn and an independent classifier, plus tail-independence and the preferred-method/"
             "NULL-prefix equalities.",
        note="classifier written from crypt.5, crypt_checksalt.3 and the property's list of strong methods; longer strings are covered through the tag + tail argument and the generated grammar settings.",
        technique="exhaustive enumeration of all short inputs on the implementation against an independent classifier",
        ref="DESIGN.md 3/C18"),
)


def _mc_cov(rule, extra=None):
    def f(stats, tier):
        c = dict(states=int(stats.get("states", 0)), transitions=int(stats.get("transitions", 0)),
                 traces_validated_against_impl=int(stats.get("transitions", 0)),
                 evaluations=int(stats.get("evaluations", 0)), distinct_nontrivial=int(stats.get("states", 0)), rule=rule)
        if extra:
            c.update(extra(stats, tier))
        return c
    return f


CHECKS["C14"] = dict(
    level="model_checking",
    jobs=lambda tier: [dict(name="c14", variant="o2", sources=["e_c14.c"] + RT, flags=["-DVH_MALLOC_SEAM"]),
                       # TLA+ model explored by TLC; every edge of its state graph replayed against the real crypt_ra
                       dict(name="c14tla", variant="o2", script=_c14tla.run)],
    coverage=_mc_cov("explicit-state BFS on the real crypt_ra/crypt_gensalt_ra under the allocator seam: 23 start states (six of them with heap room behind the block, so that realloc grows it in place over old contents); plus crypt_gensalt_ra over 19 prefix classes x 9 counts x rbytes NULL/given x 18 nrbytes values (INT_MIN..512) x every allocator fault position against the ownership rule (NULL = nothing allocated, string = exactly one live block) of (*data,*size) "
                     "(NULL with size 0/stale/negative; exact, larger; 1-, 100-, sizeof-1-byte blocks with true/zero/negative recorded size) x "
                     "alphabet of 13 operations (3 succeeding hashes, bad character, unknown prefix, 600-byte phrase, NULL setting, caller "
                     "free+reset, gensalt_ra ok/fail, crypt_ra with its first and with its second allocator request failing, gensalt_ra with each of "
                     "its allocator requests failing in turn; an undersized block must already be erased when the library first asks the allocator for memory); state = (real block size, recorded size, block contents, live-block count), "
                     "re-materialised by replaying the shortest history; depth cap 6, closure reported per start state; "
                     "every transition is an execution of the implementation checked against the protocol model, and every reached state ends "
                     "with the caller's single free (ledger must be empty); second job: tla/CryptRa.tla (abstract state: block class x recorded-size class x "
                     "live count) is explored completely by TLC with -dump dot,actionlabels and every edge of the dumped graph (39 after merging the "
                     "label variable) is replayed against the real crypt_ra from a concretised source state, the abstraction of the concrete "
                     "post-state must equal the model's successor",
                     lambda s, t: dict(tlc_distinct_states=int(s.get("tlc_distinct_states", 0)), model_edges=int(s.get("model_edges", 0)),
                                       model_edges_replayed=int(s.get("model_edges_replayed", 0)),
                                       start_states_closed=int(s.get("start_states_closed", 0)),
                                       start_states_depth_capped=int(s.get("start_states_depth_capped", 0)), max_depth=int(s.get("max_depth", 0)))),
    assumptions=["recorded sizes larger than the real block are caller contract violations and are not used as start states",
                 "realloc in the seam always moves the block and scribbles the old one, so stale-pointer use is visible"],
    nonvacuous=lambda s, t: None if s.get("states", 0) > 50 and s.get("transitions", 0) > 500 else "state space too small",
    manifest=dict(
        text="Explicit-state model checking directly on the implementation: breadth-first search over call histories on a shared (*data,*size) "
             "pair from 23 start states, each transition executing the real crypt_ra/crypt_gensalt_ra under an interposed allocator with a block "
             "ledger; invariants: *data unchanged or a live block with sizeof <= *size <= real size, erased before growth, zero after growth, "
             "result inside the block, no leak and no double free when the caller frees once.",
        note="allocator seam (malloc/realloc/free defined in the harness over __libc_*) is the observation point; search is bounded by depth 4/6 where the state space does not close earlier.",
        technique="explicit-state BFS over operation histories on the real code with state hashing and replay-based state re-materialisation; TLC model check of a TLA+ protocol model with every model edge replayed against the implementation",
        ref="DESIGN.md 3/C14"),
)

CHECKS["C15"] = dict(
    level="fault_enumeration",
    jobs=lambda tier: [dict(name="c15", variant="o2", sources=["e_c15.c"] + RT, flags=["-DVH_MALLOC_SEAM"])],
    coverage=_cov("corpus: crypt_rn, crypt_r, crypt (static), crypt_ra from (NULL,0)/100-byte block/adequate block, for all 16 methods, plus "
                  "yescrypt/gost-yescrypt/scrypt at 32 MiB (MAP_HUGETLB attempt and fallback), crypt_gensalt_ra, crypt_gensalt_rn and "
                  "crypt_gensalt with rbytes==NULL for 16 prefixes; each call is run once to count its malloc/realloc/free/mmap/munmap "
                  "requests, then once per failing position and once per ordered pair of positions (thorough: also every ordered triple, and a second "
                  "setting form per method), each followed by the same call without "
                  "faults on the same objects; distinct_nontrivial = calls of the corpus that issue at least one request (distinct request logs)",
                  lambda s, t: dict(single_faults=int(s.get("single_faults", 0)), fault_pairs=int(s.get("fault_pairs", 0)), fault_triples=int(s.get("fault_triples", 0)),
                                    follow_up_calls=int(s.get("follow_up_calls", 0)), max_requests_per_call=int(s.get("max_requests_per_call", 0)))),
    assumptions=["a fault absorbed by a documented fallback (huge-page attempt) may still yield the correct hash; any other hash is a violation",
                 "a mapping whose own munmap was failed by the injector is allowed to survive"],
    nonvacuous=lambda s, t: None if s.get("single_faults", 0) > 100 and s.get("fault_pairs", 0) > 50 else "too few faults injected",
    manifest=dict(
        text="Exhaustive fault enumeration on the real code: for every API call of a corpus covering all methods and all library-owned allocation "
             "sites, every single failing allocator/mapping request and every ordered pair of failing requests is injected through link-time "
             "interposed malloc/realloc/free/mmap/munmap with a block ledger; oracle: documented failure or the exact unfaulted result, errno class, "
             "nothing library-made left live, scratch erased, and an identical follow-up call.",
        note="allocator/mapping seam defined in the harness; huge pages are reported unavailable as in the sandbox kernel; corpus phrases fixed.",
        technique="exhaustive single- and pair-fault enumeration over the allocator/mapping request sequence of each call on the real code",
        ref="DESIGN.md 3/C15; a result after a failed request is accepted only when the failed request was the optional huge-page attempt; releases that do not match an allocation are reported for every entry point; partial munmap keeps the tail in the ledger"),
)

CHECKS["C07"] = dict(
    level="model_checking",
    jobs=lambda tier: [dict(name="c07", variant="pic", sources=["e_c07.c"] + RT, flags=["-DVH_MALLOC_SEAM"])],
    coverage=lambda stats, tier: dict(
        states=int(stats.get("distinct_states", stats.get("states", 0))), transitions=int(stats.get("transitions", 0)),
        traces_validated_against_impl=int(stats.get("transitions", 0)),
        evaluations=int(stats.get("evaluations", 0)), distinct_nontrivial=int(stats.get("distinct_states", 0)),
        rule="explicit-state BFS on the real library: state = complete writable image of the library (crypt's static object, crypt_gensalt's "
             "buffer, setkey/encrypt key schedule, every other static) + caller objects A (aligned, zero start), B (address +5, 0xA5 start), "
             "C (crypt_ra handle) + errno, hashed over all its bytes; alphabet = crypt_rn/crypt_r on A, crypt_rn on B, crypt_ra on C, crypt, "
             "xcrypt/fcrypt for 8 (quick) / 16 (thorough) method representatives x 2 phrases and 4 failing requests (forbidden byte, unknown "
             "prefix, malformed rounds, 600-byte phrase), crypt_gensalt/crypt_gensalt_rn for 5 prefixes x 2 entropy lengths, crypt(P, "
             "crypt_gensalt()) uncopied, setkey x2, encrypt x2, crypt_checksalt x2; depth cap 3 (quick) / 4 (thorough); first-level operations "
             "are dealt to 16 shards and distinct states are merged by hash; every transition runs the implementation and compares the call's "
             "result with the same call made alone from the pristine state (encrypt: with the key-register model); the first 64 states of every "
             "shard are re-materialised by replaying their history and must hash identically",
        shards_closed=int(stats.get("shards_closed", 0)), shards_capped=int(stats.get("shards_capped", 0)),
        max_depth=int(stats.get("max_depth", 0)), operations=int(stats.get("operations", 0)), state_bytes=int(stats.get("state_bytes", 0)),
        replayed_states=int(stats.get("replayed_states", 0))),
    assumptions=["heap state other than the crypt_ra block is not part of the state (the library allocates nothing else that survives a call)",
                 "arbitrary object contents / all 16 alignments / uninitialised objects are covered by C04's placement slab and MSan job"],
    nonvacuous=lambda s, t: None if s.get("distinct_states", 0) > 200 and s.get("transitions", 0) > 20000 else "state space too small",
    deadline=dict(quick=300, thorough=1700),
    manifest=dict(
        text="Explicit-state model checking directly on the implementation: breadth-first search over API call histories with the complete mutable "
             "state (library writable image found through dl_iterate_phdr, three caller objects, errno) captured, hashed and restored byte-for-"
             "byte; a hidden static, a stale buffer, an unwiped context or an errno dependency is part of the state by construction. Differential "
             "oracle: each call's result equals its solo result; entry points agree; setkey/encrypt follow a key-register model.",
        note="gcc -O2 -fPIC shared build of the working tree so that the writable image is separable; depth-bounded (3/4) where the space does not close; hash collisions (64-bit) are ignored.",
        technique="explicit-state BFS over operation histories on the real code with full-state capture/restore and hashing",
        ref="DESIGN.md 3/C07"),
)

CHECKS["C08"] = dict(
    level="model_checking",
    jobs=lambda tier: [dict(name="c08", variant="hook", sources=["e_c08.c"] + RT, flags=["-fno-builtin", "-fno-tree-loop-distribute-patterns"], opt="-O1"),
                       # free-running pass under the real ThreadSanitizer runtime (not the deciding step: keeps races outside the hook set visible)
                       dict(name="c08tsan", variant="tsan", sources=["e_c08t.c"], shards=1, stderr_violation=r"WARNING: ThreadSanitizer: data race"),
                       dict(name="c08tsancanary", variant="tsan", sources=["e_c08t.c"], shards=1, args=["canary"], canary=True, timeout=90, stderr_must_match=r"WARNING: ThreadSanitizer: data race")],
    coverage=lambda stats, tier: dict(
        states=int(stats.get("configurations", 0)), transitions=int(stats.get("schedules", 0)),
        traces_validated_against_impl=int(stats.get("schedules", 0)),
        schedules=int(stats.get("schedules", 0)), schedules_at_bound_2=int(stats.get("schedules_at_bound_2", 0)),
        configurations=int(stats.get("configurations", 0)), evaluations=int(stats.get("evaluations", 0)),
        distinct_nontrivial=int(stats.get("configurations", 0)),
        rule="stateless schedule exploration of real pthreads over the real library under a cooperative scheduler: alphabet of 42 re-entrant "
             "operations (crypt_rn for 16 methods, crypt_r, crypt_ra, crypt_gensalt_rn for 14 prefixes + count + NULL prefix + rbytes==NULL, "
             "crypt_gensalt_ra, crypt_checksalt, crypt_preferred_method); configurations: every ordered pair as 2 threads x 1 operation, 2 threads "
             "x 2 operations for same/neighbour pairs, 3 threads x 1 operation over a 6 (quick) / 12 (thorough) operation sub-alphabet; every the alphabet includes crypt_rn with 100..166-byte phrases (longer than every internal key block) for yescrypt, gost-yescrypt, scrypt, sha1crypt, bcrypt, sha512crypt and bigcrypt; every "
             "configuration explored to completion for preemption bounds 0, 1, 2; scheduling points = operation start/end + every mmap/munmap (a mapping belongs to the thread that made it and may only be unmapped, exactly, by that thread; thorough adds a 32 MiB operation) + every write to the "
             "library's writable image + every read of an image byte ever written + every access to another thread's object; per execution a "
             "byte-granular shadow of the image detects cross-thread conflicting accesses; results compared with solo results; 'states' counts "
             "configurations, 'transitions' counts complete executions (schedules)",
        max_points_per_execution=int(stats.get("max_points_per_execution", 0)),
        configurations_with_shared_writes=int(stats.get("configurations_with_shared_writes", 0)),
        canary_runs=int(stats.get("canary_runs", 0)), canary_detected=int(stats.get("canary_detected", 0)),
        horizon_capped_executions=int(stats.get("horizon_capped_executions", 0))),
    assumptions=["accesses are those gcc -fsanitize=thread instruments plus the interposed libc routines; hardware memory-model effects are out of scope (the library has no atomics)",
                 "the library's import list is checked on every run: libc functions with hidden static state (l64a, strtok, rand/random/*rand48, gmtime, localtime) are replaced by models whose state is part of the shared image; any other function POSIX marks as not thread-safe, and any synchronisation primitive, is an internal error, not a pass; other new imports are recorded in the evidence as assumed stateless",
                 "branching is limited to the first 60 scheduling points of an execution (only the MT-unsafe canary and broken trees have that many)"],
    nonvacuous=lambda s, t: None if s.get("canary_runs", 0) and s.get("canary_detected", 0) == s.get("canary_runs", 0) and s.get("configurations", 0) > 100 else "canary not detected: the instrument is blind",
    deadline=dict(quick=300, thorough=1700),
    manifest=dict(
        text="Stateless model checking of the implementation: preemption-bounded (0,1,2) exhaustive exploration of thread schedules of real "
             "pthreads calling the re-entrant API concurrently, under a hand-off scheduler whose scheduling points come from compiler-inserted "
             "access hooks (gcc -fsanitize=thread objects linked against the harness's own __tsan_* runtime); data races are decided by a shadow "
             "of the library's writable image, results by comparison with solo executions; a canary on the documented MT-unsafe crypt()/"
             "crypt_gensalt() must be detected on every run.",
        note="trusted base: completeness of gcc's tsan instrumentation + the interposed libc routines; a free-running pass under the real ThreadSanitizer runtime complements it in the thorough tier.",
        technique="preemption-bounded exhaustive schedule exploration (CHESS-style) of real threads on the real code, with access-hook scheduling points",
        ref="DESIGN.md 3/C08"),
)

CHECKS["C09"] = dict(
    level="exploration",
    jobs=lambda tier: [dict(name="c09o0", variant="o0", sources=["e_c09.c"] + RT, flags=["-DHAVE_CONFIG_H", "-DVH_MALLOC_SEAM", "-DVH_SCAN_STACK=1"], opt="-O0",
                            # eager binding: the lazy PLT resolver would spill vector registers (register residue, outside the property) onto the scanned stack
                            libs=["-Wl,-z,now"]),
                       dict(name="c09o2", variant="o2", sources=["e_c09.c"] + RT, flags=["-DHAVE_CONFIG_H", "-DVH_MALLOC_SEAM", "-DVH_SCAN_STACK=0"])],
    coverage=_cov("16 methods x outcome kinds {success, method-level failure, forbidden byte, 600-byte phrase, unknown prefix, mmap failure "
                  "(yescrypt family), undersized crypt_ra block} x phrase lengths {1,7,8,9,16,55,56,64,65,100,128,199,511} (position-distinct "
                  "8-bit fill) x entry points {crypt_rn, crypt_r, crypt_ra}; each call runs on a dedicated thread with a pre-filled 1 MiB stack "
                  "under the allocator/mapping seam; after it: internal/reserved/initialized all zero iff the call passed validation, else "
                  "untouched; no 6-byte window of the phrase in the encodings {raw, UCS-2LE, <<1, xor 0x36, xor 0x5c, byte-swapped 32/64-bit "
                  "words} in the object, in any block or mapping at release time, in live blocks, or (job on the -O0 build) on the stack; "
                  "crypt_gensalt*(rbytes==NULL) x 16 prefixes x 3 entry points: the drawn bytes do not survive; 7 primitives x 10 lengths: context "
                  "all-zero after Final; 108 three-call histories; distinct_nontrivial = distinct clean cases; a request-time callback checks that an undersized crypt_ra block is already erased when the library first asks the allocator for memory (also with that allocation failing)"),
    assumptions=["registers, -O2 spill slots and kernel copies are outside the property (it names -O0); the stack scan runs on the gcc -O0 build only",
                 "mappings larger than 1 MiB are scanned in their first and last 256 KiB at munmap time"],
    nonvacuous=lambda s, t: None if s.get("validated_calls", 0) > 1000 and s.get("rejected_calls", 0) > 100 and s.get("max_stack_used", 0) > 2000 else "too few cases or no stack use observed",
    deadline=dict(quick=300, thorough=1500),
    manifest=dict(
        text="Bounded exhaustive exploration of (method, outcome kind, phrase length, entry point) with memory scanning as the oracle: the data "
             "object, every heap block and mapping at the moment the library releases it, blocks still live, and the dedicated pre-filled call "
             "stack of the -O0 build are searched for passphrase material in every encoding the algorithms use; the erase-iff-validated rule is "
             "checked on pre-dirtied scratch.",
        note="gcc -O0 and -O2 builds of the working tree; allocator/mapping seam with scan-before-release; 6-byte windows of a position-distinct 8-bit phrase make accidental matches impossible.",
        technique="exhaustive enumeration of method x outcome x length x entry-point grids on the implementation with memory-residue scanning",
        ref="DESIGN.md 3/C09"),
)

CHECKS["C17"] = dict(
    level="exploration",
    jobs=lambda tier: [dict(name="c17", variant="pic", sources=["e_c17.c"] + RT, libs=["-lgcrypt"], flags=["-DHAVE_CONFIG_H"]),
                       # setkey_r/encrypt_r on distinct objects from 2..3 threads: C08's schedule explorer over a DES alphabet
                       dict(name="c17sched", variant="hook", sources=["e_c08.c"] + RT, flags=["-fno-builtin", "-fno-tree-loop-distribute-patterns", "-DVH_C17_SCHED"], opt="-O1")],
    coverage=lambda stats, tier: dict(
        evaluations=int(stats.get("evaluations", 0)), distinct_nontrivial=int(stats.get("distinct_nontrivial", 0)),
        rule="DES core through des_set_key/des_set_salt/des_crypt_block against a bit-level FIPS 46-3 reference (itself cross-checked with libgcrypt): "
             "input families built so that every lookup-table entry is used - block byte i = b (IP, 8x256x2), pre-FP state byte i = b via the "
             "reference's inverse (FP), key byte i = every 7-bit value x parity x background (PC1), key-register group i = every value through "
             "inverse PC1 (PC2), weight-1/63 keys x weight-1/63 blocks, counter-derived keys/blocks until all 4x4096 merged S-box pair inputs "
             "(accounted from the reference's round inputs) are covered; salted/iterated function for every single salt bit, 0, 0xffffff x counts "
             "{1,2,3,25,26,725} x 64 blocks and all 4096 12-bit salts; salt 0/count 1 vs libgcrypt DES; gen-des-tables output vs checked-in tables. "
             "API: setkey/encrypt/setkey_r/encrypt_r (GLIBC_2.2.5 symbols) on weight-1/63 vectors with junk bits {0,0xfe,0x80,0x30}: 0/1 outputs, "
             "equals DES, static == re-entrant, parity ignored, decrypt inverts; the re-entrant pair repeated on an object at each address offset 0..15 (moved by 64 bytes between the two calls at odd offsets); histories: BFS to closure over 11 operations against a "
             "key-register model; job c17sched: C08's preemption-bounded schedule explorer (bounds 0,1,2; 2 and 3 threads) over the alphabet {setkey_r;encrypt_r encrypt, decrypt, crypt_rn(descrypt/bigcrypt/bsdicrypt), crypt_gensalt_rn(_)} on distinct objects: no access to shared library state, results equal the solo results; distinct_nontrivial = distinct (key, salt, count, ciphertext) results",
        states=int(stats.get("history_states", 0)), transitions=int(stats.get("history_transitions", 0)),
        sbox_pair_inputs_covered=int(stats.get("max_sbox_pair_inputs_covered", 0)), sbox_pair_inputs_total=16384),
    assumptions=["2^56 x 2^64 is not enumerated: completeness is over the table-entry space and the single-bit input space of a table-driven cipher",
                 "table reads are not observed directly (gcc does not instrument reads of const data): IP/FP/PC1/PC2 coverage is by construction of the inputs, S-box coverage is accounted from the reference's round inputs"],
    nonvacuous=lambda s, t: None if s.get("core_cases", 0) > 50000 and s.get("api_cases", 0) > 1000 and s.get("max_sbox_pair_inputs_covered", 0) == 16384 else "coverage incomplete",
    manifest=dict(
        text="Bounded exhaustive exploration of the structure of a table-driven DES: every table entry of IP, FP, PC1, PC2 and of the merged S-box "
             "tables is exercised by a constructed input and compared with an independent bit-level FIPS 46-3 model; the salt/iteration extension "
             "is enumerated per salt bit and count; the obsolete API is enumerated over single-bit vectors and junk-bit patterns, and its "
             "interplay with crypt/crypt_r/crypt_gensalt is searched to closure against a key-register model.",
        note="reference DES typed from FIPS 46-3 and validated against libgcrypt on every run; coverage of the S-box tables is derived from the reference, not observed.",
        technique="exhaustive enumeration of table-entry-covering input families and explicit-state search of API histories on the implementation against a reference model",
        ref="DESIGN.md 3/C17"),
)


CHECKS["C20"] = dict(
    level="exploration",
    jobs=lambda tier: [dict(name="c20", variant="so", script=_c20.run)],
    coverage=_cov("complete enumeration of the finite interface: (1) every (symbol, version, default-ness) FUNC export of the released "
                  "libcrypt.so.1 (4.4.33) must be exported identically by the freshly built versioned library; (2) sizeof/offsetof of all six "
                  "fields of struct crypt_data and every public constant, from a probe compiled against the tree's regenerated <crypt.h> and "
                  "against the released header, equal to each other and to the documented literals; (3) an old client compiled and linked "
                  "against the released header and library only (all 16 methods x 6 phrases, failing settings, generators x counts x nrbytes, "
                  "every compat symbol through dlvsym, setkey/encrypt interleaved with crypt/crypt_gensalt) run with the released and with the "
                  "fresh library substituted through LD_LIBRARY_PATH: transcripts identical; every pair resolves through dlvsym; (4) compat "
                  "names answer as their modern counterparts; distinct_nontrivial = distinct transcript lines",
                  lambda s, t: dict(released_symbol_versions=int(s.get("released_symbol_versions", 0)), transcript_lines=int(s.get("transcript_lines", 0)),
                                    layout_items=int(s.get("layout_items", 0)), alias_comparisons=int(s.get("alias_comparisons", 0)))),
    assumptions=["the released libcrypt.so.1 and /usr/include/crypt.h of the image (libxcrypt 4.4.33) stand for 'existing binaries built against libxcrypt 4.x'",
                 "corpus cells where the tree is repaired relative to 4.4.33 (over-long sha1crypt salts, exact-fit gensalt sizes, nrbytes==3, bcrypt stack copy) are not part of the corpus"],
    nonvacuous=lambda s, t: None if s.get("transcript_lines", 0) > 1500 and s.get("released_symbol_versions", 0) > 20 and s.get("layout_items", 0) > 15 else "interface enumeration incomplete",
    manifest=dict(
        text="Complete enumeration of a finite interface space rather than a search: every exported (symbol, version) pair, every struct field "
             "offset and public constant, and an old-binary transcript over a corpus touching every method and every compatibility symbol, "
             "compared between the released library and the freshly built shared object.",
        note="gcc -O2 -fPIC -DPIC build linked with the tree's generated version script; the released 4.4.33 library and header in the image are the reference.",
        technique="exhaustive enumeration of the binary interface (symbol versions, layout, constants) and differential old-client replay against the released library",
        ref="DESIGN.md 3/C20; plus the 29 export triples of the pinned configuration (c20/upstream_exports.txt), objects placed at offsets 0..15 between canaries, an nrbytes 0..72 sweep, and an object moved between setkey_r and encrypt_r"),
)


CHECKS["C19"] = dict(
    level="exploration",
    jobs=lambda tier: [dict(name="c19", variant="o1", script=_c19.run)],
    coverage=_cov("Level 1 (generator level): the tree's expand-selected-hashes, gen-crypt-hashes-h and gen-crypt-h are run for hash selections "
                  "- quick: all selections of size 1, 2, 14, 15, 16 (273); thorough: all 65 535 non-empty subsets - plus every named group, and "
                  "INCLUDE_* values, dispatch-table order (longest prefix first, empty prefix last, bigcrypt before descrypt, no shadowing), "
                  "HASH_ALGORITHM_DEFAULT and CRYPT_GENSALT_IMPLEMENTS_DEFAULT_PREFIX are compared with an independent model. Level 2 "
                  "(compiled): interaction clusters are derived on every run from the INCLUDE_* tokens co-occurring in #if lines; the power set "
                  "of each cluster (quick: full power set for clusters of <= 4 methods, yescrypt/scrypt/gost subsets for the large one) against "
                  "background all-on (and all-off), all singletons, all leave-one-out sets and the named groups are each built from the working "
                  "tree and driven through a 1 300-request API transcript (crypt_rn/crypt for 4 phrases x up to 5 settings per method, "
                  "checksalt, gensalt x 5 counts x 2 entropy lengths, generated setting hashes, preferred method, NULL prefix), compared with "
                  "the full build for enabled methods and with the unknown-tag pattern for disabled ones; distinct_nontrivial = selections "
                  "processed",
                  lambda s, t: dict(level1_selections=int(s.get("level1_selections", 0)), level2_configurations=int(s.get("level2_configurations", 0)),
                                    level2_built=int(s.get("level2_built", 0)), clusters=int(s.get("clusters", 0)), named_groups=int(s.get("named_groups", 0)))),
    assumptions=["not every one of the 2^16 selections is compiled: methods interact in C only through #if INCLUDE_a || INCLUDE_b guards, so the power set of each mechanically derived cluster is the stated reduction",
                 "DES family: with descrypt off and bigcrypt on, 13-character settings with long phrases are refused and bigcrypt's generated setting is padded (documented in crypt-des.c); with bigcrypt off, every DES-shaped setting is a descrypt setting"],
    nonvacuous=lambda s, t: None if s.get("level1_selections", 0) > 200 and s.get("level2_built", 0) > 40 else "too few configurations processed",
    deadline=dict(quick=400, thorough=1700),
    manifest=dict(
        text="Exhaustive enumeration of build configurations: all hash selections at the generator level against an independent model of the "
             "documented rules, and the complete power set of every interaction cluster at the compiled level, each selection built from the "
             "working tree and compared request-by-request with the full build (enabled) or the unknown-tag behaviour (disabled).",
        note="gcc -O1 static builds through the same content-hashed object cache; cluster reduction argued from the preprocessor guards, derived mechanically on every run.",
        technique="exhaustive enumeration of configuration subsets (generator outputs for all 2^16-1, compiled libraries per interaction-cluster power set) with differential comparison against the full build",
        ref="DESIGN.md 3/C19; transcripts run on pattern-filled objects and include 8-bit phrases and checksalt(preferred)"),
)
