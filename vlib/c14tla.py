"""C14, model side: TLC explores tla/CryptRa.tla completely; every edge of the dumped state graph is
replayed against the real crypt_ra (harness e_c14 --edges) and the abstraction of the concrete
post-state must equal the model's successor."""
import os, re, subprocess, time, shutil
from . import build


def run(job, tier, deadline_s):
    t0 = time.time()
    agg = dict(stats={}, samples=[], viols=[], done=1, complete=1, errors=[], stderr=[], hsets={}, nshards=1)
    st = agg["stats"]
    var = build.build_variant("o2")
    wd = os.path.join(var["dir"], "tla")
    shutil.rmtree(wd, ignore_errors=True)
    os.makedirs(wd)
    src = os.path.join(build.VERIF, "tla")
    for f in ("CryptRa.tla", "CryptRa.cfg"):
        shutil.copy(os.path.join(src, f), wd)
    dot = os.path.join(wd, "graph.dot")
    p = subprocess.run(["tlc", "-workers", "4", "-metadir", os.path.join(wd, "md"), "-dump", "dot,actionlabels", dot, "-config", "CryptRa.cfg", "CryptRa.tla"],
                       cwd=wd, stdout=subprocess.PIPE, stderr=subprocess.STDOUT)
    out = p.stdout.decode(errors="replace")
    m = re.search(r"(\d+) states generated, (\d+) distinct states found", out)
    if "No error has been found" not in out or not m or not os.path.exists(dot):
        agg["errors"].append("TLC did not complete on tla/CryptRa.tla: " + out[-600:])
        return agg
    st["tlc_states_generated"], st["tlc_distinct_states"] = int(m.group(1)), int(m.group(2))
    nodes, edges = {}, []
    for line in open(dot):
        mm = re.match(r'^(-?\d+) \[label="(.*)"[,\]]', line)
        if mm and "->" not in line:
            lab = mm.group(2).replace("\\n", " ").replace('\\"', '"').replace("\\\\", "\\")
            kv = dict(re.findall(r'(\w+) = "?([\w]+)"?', lab))
            nodes[mm.group(1)] = kv
        mm = re.match(r'^(-?\d+) -> (-?\d+) \[label="(.*?)"', line)
        if mm:
            edges.append((mm.group(1), mm.group(2), mm.group(3)))
    lines = []
    for a, b, lab in edges:
        s, d = nodes[a], nodes[b]
        lines.append("%s %s %s %s %s %s %s" % (s["blk"], s["rec"], s["live"], d["last"], d["blk"], d["rec"], d["live"]))
    lines = sorted(set(lines))
    st["model_edges"] = len(lines)
    ef = os.path.join(wd, "edges.txt")
    open(ef, "w").write("\n".join(lines) + "\n")
    exe = os.path.join(var["dir"], "h_c14edges")
    hdir = os.path.join(build.VERIF, "harness")
    build.build_harness(var, [os.path.join(hdir, "e_c14.c"), os.path.join(hdir, "vh_rt.c")], exe, extra_flags=["-DVH_MALLOC_SEAM"])
    r = subprocess.run([exe, "--tier", tier, "--edges", ef], stdout=subprocess.PIPE, stderr=subprocess.PIPE, cwd=build.VERIF)
    import json
    done = False
    for line in r.stdout.decode(errors="replace").splitlines():
        if line.startswith("S "):
            _, k, v = line.split(" ", 2)
            st[k] = st.get(k, 0) + int(v)
        elif line.startswith("V "):
            sig, _, js = line[2:].partition("\t")
            try:
                case = json.loads(js)
            except ValueError:
                case = {"raw": js}
            agg["viols"].append((sig, case))
        elif line.startswith("X "):
            agg["samples"].append(json.loads(line[2:]))
        elif line.startswith("E "):
            agg["errors"].append(line[2:])
        elif line.startswith("DONE"):
            done = True
    if not done:
        agg["errors"].append("edge replay harness did not finish (status %s)" % r.returncode)
    if st.get("model_edges_replayed", 0) != len(lines):
        agg["errors"].append("replayed %s of %d model edges" % (st.get("model_edges_replayed"), len(lines)))
    agg["samples"].append({"model_edge": lines[0], "tlc": m.group(0)})
    agg["wall"] = time.time() - t0
    return agg
