"""C02, bcrypt against a specification-level model (ref/ref_bcrypt.py: Blowfish boxes derived from pi, eksblowfish
from the bcrypt paper, the $2x$ sign-extension rule and the $2a$ counter-measure from the crypt_blowfish notes).
The grid (subtype x cost x salt x phrase) is enumerated completely; the working tree's crypt_rn is called through
ctypes on the `pic` shared object; 16 worker processes each take the cases with index % 16 == worker."""
import os, sys, time, json, ctypes, multiprocessing
from . import build

sys.path.insert(0, os.path.join(build.VERIF, "ref"))

SALTS = ["abcdefghijklmnopqrstuu", "ZYXWVUTSRQPONMLKJIHGFe", "......................", "9999999999999999999999",
         "CCCCCCCCCCCCCCCCCCCCC.", "/.A0z9/.A0z9/.A0z9/.A."]


def phrases(tier):
    out = []
    lens = list(range(0, 12)) + [15, 16, 17, 31, 32, 33, 55, 56, 57, 63, 64, 65, 70, 71, 72, 73, 74, 80, 100, 255, 511]
    if tier == "thorough":
        lens = list(range(0, 90)) + [100, 127, 128, 255, 256, 511]
    for n in lens:
        out.append(bytes((0x41 + (i % 26)) for i in range(n)))                       # A: 7-bit pattern
        out.append(bytes((0x80 + ((i * 37) % 127)) for i in range(n)))               # H: every byte 8-bit
        out.append(bytes((0x21 + ((i * 7) % 94)) | (0x80 if i % 5 == 3 else 0) for i in range(n)))   # M: mixed
    # the situations the $2a$/$2x$ rules were written for: 8-bit bytes at each position of a word, keys whose
    # buggy and correct expansions coincide, and the published collision pair of the sign-extension bug
    for k in range(1, 9):
        for pos in range(k):
            b = bytearray(b"a" * k)
            b[pos] = 0xA3
            out.append(bytes(b))
    out += [b"\xff", b"\xff\xff", b"\xff\xff\xff", b"\xff\xa3", b"\xa3", b"1\xa3" + b"345", b"\xff\xa3" + b"345", b"\xff\xff\xa3",
            b"\xa3ab", b"\xd1\x91", b"\xd0\xc1\xd2\xcf\xcc\xd8", b"\x80" * 3, b"\x80" * 7, b"\x80" * 71, b"\x80" * 72, b"\xaa" * 72 + b"x"]
    seen, uniq = set(), []
    for p in out:
        if b"\0" not in p and p not in seen:
            seen.add(p)
            uniq.append(p)
    return uniq


def cases(tier):
    costs = ["04", "05"] if tier == "quick" else ["04", "05", "06", "07"]
    ph = phrases(tier)
    out = []
    for sub in "byax":
        for ci, c in enumerate(costs):
            salts = (SALTS[:2] if ci == 0 else SALTS[4:5]) if tier == "quick" else (SALTS[:2] if ci >= 2 else SALTS)
            for s in salts:
                for p in ph:
                    out.append(("$2%s$%s$%s" % (sub, c, s), p))
    return out


def _worker(arg):
    lib_path, tier, w, nw, deadline, only = arg
    import ref_bcrypt
    lib = ctypes.CDLL(lib_path)
    lib.crypt_rn.restype = ctypes.c_char_p
    lib.crypt_rn.argtypes = [ctypes.c_char_p, ctypes.c_char_p, ctypes.c_void_p, ctypes.c_int]
    buf = ctypes.create_string_buffer(32768)
    res = dict(n=0, skipped=0, viols=[], hashes=set(), complete=1, eightbit=0, flip=0, samples=[])
    t_end = time.time() + deadline
    cs = cases(tier)
    for i, (setting, phrase) in enumerate(cs):
        if only is not None:
            if i != only:
                continue
        elif i % nw != w:
            continue
        if time.time() > t_end:
            res["complete"] = 0
            break
        want = ref_bcrypt.bcrypt(phrase, setting)
        if want is None:
            res["skipped"] += 1
            continue
        r = lib.crypt_rn(phrase, setting.encode(), buf, 32768)
        got = r.decode("latin-1") if r else None
        res["n"] += 1
        if any(c >= 0x80 for c in phrase):
            res["eightbit"] += 1
            if setting[2] == "a" and ref_bcrypt.key_words(phrase, "a")[1]:
                res["flip"] += 1
        if got != want:
            res["viols"].append(("bcrypt-differs-from-specification-model/sub=2%s" % setting[2],
                                 dict(setting=setting, phrase_hex=phrase.hex(), phrase_len=len(phrase), got=got, model=want, replay="case=%d" % i)))
        else:
            res["hashes"].add(got)
            if len(res["samples"]) < 1 and w == 0:
                res["samples"].append(dict(setting=setting, phrase_len=len(phrase), hash=got))
    res["hashes"] = len(res["hashes"])
    return res


def run(job, tier, deadline_s, replay=None):
    t0 = time.time()
    agg = dict(stats={}, samples=[], viols=[], done=0, complete=0, errors=[], stderr=[], hsets={}, nshards=1 if replay else build.NCPU)
    st = agg["stats"]
    var = build.build_variant("pic")
    lib_path = os.path.join(var["dir"], "libxc.so")
    if not os.path.exists(lib_path):
        agg["errors"].append("no libxc.so in the pic variant")
        return agg
    import ref_bcrypt
    # self-test of the model on published vectors before it is used as an oracle
    vec = [(b"U*U", "$2a$05$CCCCCCCCCCCCCCCCCCCCC.", "$2a$05$CCCCCCCCCCCCCCCCCCCCC.E5YPO9kmyuRGyh0XouQYb4YMJKvyOeW"),
           (b"", "$2a$05$CCCCCCCCCCCCCCCCCCCCC.", "$2a$05$CCCCCCCCCCCCCCCCCCCCC.7uG0VCzI2bS7j6ymqJi9CdcdxiRTWNy"),
           (b"\xa3", "$2x$05$/OK.fbVrR/bpIqNJ5ianF.", "$2x$05$/OK.fbVrR/bpIqNJ5ianF.CE5elHaaO4EbggVDjb8P19RukzXSM3e"),
           (b"\xa3", "$2y$05$/OK.fbVrR/bpIqNJ5ianF.", "$2y$05$/OK.fbVrR/bpIqNJ5ianF.Sa7shbm4.OzKpvFnX1pQLmQW96oUlCq"),
           (b"\xff\xff\xa3", "$2a$05$/OK.fbVrR/bpIqNJ5ianF.", "$2a$05$/OK.fbVrR/bpIqNJ5ianF.nqd1wy.pTMdcvrRWxyiGL2eMz.2a85."),
           (b"\xff\xa3" + b"345", "$2a$05$/OK.fbVrR/bpIqNJ5ianF.", "$2a$05$/OK.fbVrR/bpIqNJ5ianF.nRht2l/HRhr6zmCp9vYUvvsqynflf9e")]
    for ph, se, want in vec:
        if ref_bcrypt.bcrypt(ph, se) != want:
            agg["errors"].append("bcrypt model fails the published vector %s" % want)
            return agg
    st["model_selftest_vectors"] = len(vec)
    nw = build.NCPU
    only = None
    if replay:
        only = int(replay.split("=")[1])
        args = [(lib_path, tier, 0, 1, deadline_s, only)]
    else:
        args = [(lib_path, tier, w, nw, deadline_s * 0.9, None) for w in range(nw)]
    with multiprocessing.Pool(len(args)) as pool:
        results = pool.map(_worker, args)
    for r in results:
        st["bcrypt_model_comparisons"] = st.get("bcrypt_model_comparisons", 0) + r["n"]
        st["bcrypt_model_8bit_phrases"] = st.get("bcrypt_model_8bit_phrases", 0) + r["eightbit"]
        st["bcrypt_model_2a_countermeasure_cases"] = st.get("bcrypt_model_2a_countermeasure_cases", 0) + r["flip"]
        st["bcrypt_model_distinct_hashes"] = st.get("bcrypt_model_distinct_hashes", 0) + r["hashes"]
        st["bcrypt_model_outside"] = st.get("bcrypt_model_outside", 0) + r["skipped"]
        agg["viols"] += r["viols"]
        agg["samples"] += r["samples"]
        agg["done"] += 1
        agg["complete"] += 1 if r["complete"] else 0
        st["evaluations"] = st.get("evaluations", 0) + r["n"]
    st["bcrypt_model_grid"] = len(cases(tier))
    agg["wall"] = time.time() - t0
    return agg
