"""C19: every --enable-hashes selection yields a coherent library (Engine K).
Level 1: the tree's generator scripts are run for hash selections (all 65 535 in the thorough
tier) and their output is compared with an independent model of the documented rules.
Level 2: selections chosen by a mechanically derived interaction-cluster reduction are compiled
and driven through one API transcript harness; enabled methods must behave as in the full
build, disabled ones exactly like an unknown tag."""
import itertools, os, re, subprocess, time
from concurrent.futures import ThreadPoolExecutor
from . import build

TAGS = {"yescrypt": "$y$", "gost_yescrypt": "$gy$", "scrypt": "$7$", "bcrypt": "$2b$", "bcrypt_y": "$2y$", "bcrypt_a": "$2a$", "bcrypt_x": "$2x$",
        "sha512crypt": "$6$", "sha256crypt": "$5$", "sha1crypt": "$sha1", "sunmd5": "$md5", "md5crypt": "$1$", "nt": "$3$", "bsdicrypt": "_",
        "bigcrypt": "", "descrypt": ""}
# harness method order (vh_methods.h)
ORDER = ["yescrypt", "gost_yescrypt", "scrypt", "bcrypt", "bcrypt_y", "bcrypt_a", "bcrypt_x", "sha512crypt", "sha256crypt", "sha1crypt", "sunmd5",
         "md5crypt", "nt", "bsdicrypt", "bigcrypt", "descrypt"]
DEFAULT_CANDIDATES = ["yescrypt", "bcrypt", "sha512crypt"]      # crypt.5 / hashes.conf: strongest first
STRONG = {"yescrypt", "gost_yescrypt", "scrypt", "bcrypt", "bcrypt_y", "bcrypt_a", "sha512crypt"}


def parse_groups():
    """independent reading of lib/hashes.conf: name, prefix, nrbytes, flags"""
    groups, hashes = {}, []
    for line in open(os.path.join(build.REPO, "lib", "hashes.conf")):
        line = line.split("#")[0].strip()
        if not line:
            continue
        f = line.split()
        if len(f) != 4:
            continue
        name, prefix, nrb, flags = f
        hashes.append(name)
        for g in flags.split(","):
            if g and g != ":" and g != "DEFAULT":      # DEFAULT marks default candidates, it is not a selectable group
                groups.setdefault(g.lower(), []).append(name)
    return hashes, groups


def clusters():
    H = list(TAGS)
    par = {h: h for h in H}

    def find(x):
        while par[x] != x:
            x = par[x]
        return x
    lib = os.path.join(build.REPO, "lib")
    for fn in os.listdir(lib):
        if not fn.endswith((".c", ".h")):
            continue
        for line in open(os.path.join(lib, fn), errors="replace"):
            if re.match(r"\s*#\s*(if|elif)", line):
                toks = [t for t in re.findall(r"INCLUDE_(\w+)", line) if t in par]
                for a, b in zip(toks, toks[1:]):
                    par[find(a)] = find(b)
    cl = {}
    for h in H:
        cl.setdefault(find(h), []).append(h)
    return sorted(cl.values(), key=lambda c: (-len(c), c))


def model_headers(enabled):
    en = sorted(enabled)
    table = sorted(en, key=lambda n: (-len(TAGS[n]), TAGS[n]))       # stable: name order inside equal prefixes
    default = next((TAGS[c] for c in DEFAULT_CANDIDATES if c in enabled), None)
    return table, default


def level1_one(sel):
    """run the tree's scripts for one selection; returns list of (sig, case)"""
    scripts = os.path.join(build.REPO, "build-aux", "scripts")
    conf = os.path.join(build.REPO, "lib", "hashes.conf")
    env = dict(os.environ, LC_ALL="C")
    out = []
    arg = ",".join(sel)
    p = subprocess.run(["perl", os.path.join(scripts, "expand-selected-hashes"), conf, arg], stdout=subprocess.PIPE, stderr=subprocess.PIPE, env=env)
    exp = p.stdout.decode().strip()
    want = "," + ",".join(sorted(sel)) + ","
    if p.returncode != 0 or exp != want:
        out.append(("expand-selected-hashes-wrong", dict(selection=arg, got=exp, expected=want, status=p.returncode)))
        return out
    p = subprocess.run(["perl", os.path.join(scripts, "gen-crypt-hashes-h"), conf, exp], stdout=subprocess.PIPE, stderr=subprocess.PIPE, env=env)
    h = p.stdout.decode()
    if p.returncode != 0:
        out.append(("gen-crypt-hashes-h-fails", dict(selection=arg, stderr=p.stderr.decode()[-300:])))
        return out
    inc = dict(re.findall(r"#define INCLUDE_(\w+)\s+(\d)", h))
    for n in TAGS:
        if inc.get(n) != ("1" if n in sel else "0"):
            out.append(("INCLUDE-macro-wrong/%s" % n, dict(selection=arg, macro="INCLUDE_" + n, got=inc.get(n))))
    table = re.findall(r"\{\s*\"([^\"]*)\",\s*\d+,\s*crypt_(\w+)_rn,", h)
    rows = re.findall(r"\{\s*\"([^\"]*)\",\s*(\d+),\s*crypt_(\w+)_rn,\s*gensalt_(\w+)_rn,\s*(\d+),\s*(\d+)\s*\}", h)
    NRB = {"yescrypt": 16, "gost_yescrypt": 16, "scrypt": 16, "bcrypt": 16, "bcrypt_y": 16, "bcrypt_a": 16, "bcrypt_x": 16, "sha512crypt": 15, "sha256crypt": 15,
           "sha1crypt": 20, "sunmd5": 8, "md5crypt": 9, "nt": 1, "bsdicrypt": 3, "bigcrypt": 2, "descrypt": 2}
    for pfx, plen, cn, gn, nrb, strong in rows:
        if pfx != TAGS.get(cn) or int(plen) != len(pfx) or gn != cn or int(nrb) != NRB.get(cn) or int(strong) != (1 if cn in STRONG else 0):
            out.append(("dispatch-table-row-wrong/%s" % cn, dict(selection=arg, row=[pfx, plen, cn, gn, nrb, strong],
                                                              expected=[TAGS.get(cn), len(TAGS.get(cn, "")), cn, cn, NRB.get(cn), 1 if cn in STRONG else 0])))
    if len(rows) != len(table):
        out.append(("dispatch-table-rows-unparsed", dict(selection=arg, rows=len(rows), entries=len(table))))
    mtable, mdefault = model_headers(set(sel))
    if [t[1] for t in table] != mtable:
        out.append(("dispatch-table-order-wrong", dict(selection=arg, got=[t[1] for t in table], expected=mtable)))
    names = [t[1] for t in table]
    # empty-prefix entries last, bigcrypt before descrypt, no prefix shadowed by an earlier shorter one
    for i, (pfx, n) in enumerate(table):
        for pfx2, n2 in table[:i]:
            if pfx2 == "" and pfx != "":
                out.append(("empty-prefix-not-last", dict(selection=arg, table=names)))
            if pfx2 and pfx.startswith(pfx2) and pfx != pfx2:
                out.append(("prefix-shadowed", dict(selection=arg, table=names)))
    m = re.search(r"#define HASH_ALGORITHM_DEFAULT \"([^\"]*)\"", h)
    got_default = m.group(1) if m else None
    if got_default != mdefault:
        out.append(("default-prefix-wrong", dict(selection=arg, got=got_default, expected=mdefault)))
    p = subprocess.run(["perl", os.path.join(scripts, "gen-crypt-h"), os.path.join(build.REPO, "lib", "crypt.h.in"), os.path.join(build.REPO, "config.h"), conf, exp],
                       stdout=subprocess.PIPE, stderr=subprocess.PIPE, env=env)
    m = re.search(r"#define CRYPT_GENSALT_IMPLEMENTS_DEFAULT_PREFIX (\d)", p.stdout.decode())
    if p.returncode != 0 or not m or int(m.group(1)) != (1 if mdefault else 0):
        out.append(("IMPLEMENTS_DEFAULT_PREFIX-wrong", dict(selection=arg, got=m.group(1) if m else None, expected=1 if mdefault else 0)))
    return out


def transcript(var, name):
    exe = os.path.join(var["dir"], "h_c19")
    build.build_harness(var, [os.path.join(build.VERIF, "harness", "e_c19.c"), os.path.join(build.VERIF, "harness", "vh_rt.c")], exe)
    p = subprocess.run([exe], stdout=subprocess.PIPE, stderr=subprocess.PIPE, cwd=build.VERIF)
    lines = {}
    for l in p.stdout.decode(errors="replace").splitlines():
        if l.startswith("T ") and " => " in l:
            k, v = l[2:].split(" => ", 1)
            lines[k] = v
    return p.returncode, lines


def expected_line(key, full, unk, enabled):
    """what a configuration must print for request KEY"""
    f = key.split("|")
    kind = f[0]
    des_on, big_on = "descrypt" in enabled, "bigcrypt" in enabled
    default = next((TAGS[c] for c in DEFAULT_CANDIDATES if c in enabled), None)
    if kind == "U":
        return full[key]
    if kind == "P":
        return default if default else "NULL"
    if kind == "D":
        return "1" if default else "0"
    if kind == "Q":
        return "0" if default else "-1"
    if kind == "N":
        return None                     # checked structurally below
    m = ORDER[int(f[1])]
    on = m in enabled
    if m in ("descrypt", "bigcrypt"):
        fam = des_on or big_on
        if kind == "K":
            return full[key] if fam else unk["checksalt"]
        if kind in ("C", "S"):
            setting, pi = f[2], int(f[3])
            plen = [0, 2, 9, 35, 3, 8][pi]
            fail = "NULL|22" if kind == "C" else "*0|22"
            if not fam:
                return fail
            if des_on and big_on:
                return full[key]
            if des_on:                  # bigcrypt off: every DES-shaped setting is a descrypt setting
                k2 = "%s|%d|%s|%d" % (kind, ORDER.index("descrypt"), setting[:2] if False else setting, pi)
                # descrypt ignores the setting beyond 2 characters and the phrase beyond 8: equals the full build's answer for the 2-character setting
                short = "%s|%d|%s|%d" % (kind, ORDER.index("descrypt"), setting[:2], pi)
                if short in full:
                    base = full[short].split("|")[0]
                    return base[:13] + "|0"
                return None
            # descrypt off, bigcrypt on
            if plen > 8 and len(setting) <= 13:
                return fail
            return full[key]
        if kind == "G":
            if not fam:
                return unk["gensalt"]
            if int(f[3]) != 0:
                return full[key]
            base = full[key].split("|")[0]
            if big_on and not des_on:
                return base + "............|0"
            return full[key]
        if kind == "H":
            return full[key] if fam else None
    if on:
        return full[key]
    if kind == "C":
        return "NULL|22"
    if kind == "S":
        return "*0|22"
    if kind == "K":
        return unk["checksalt"]
    if kind == "G":
        return unk["gensalt"]
    if kind == "H":
        return None                     # no generated setting to hash
    return None


def level2(configs, full, unk, agg, st, t0, deadline_s, allh, prefix="level2", keep=None):
    """build every configuration, run the transcript harness, compare each request with the model; KEEP filters request kinds"""
    nbuilt = 0
    for cfg in configs:
        if time.time() - t0 > deadline_s * 0.9:
            agg["complete"] = 0
            break
        mask = sum(1 << allh.index(h) for h in cfg)
        tag = "cfg%04x" % mask
        name = ",".join(cfg)
        try:
            var = build.build_variant("o1", hashes=list(cfg), tag=tag)
            rc, tr = transcript(var, tag)
        except build.BuildError as e:
            agg["viols"].append((prefix + "/selection-does-not-build", dict(selection=name, error=str(e)[-800:], replay=prefix + ":" + name)))
            continue
        finally:
            import shutil
            shutil.rmtree(os.path.join(build.BUILD, "o1-" + tag), ignore_errors=True)
        nbuilt += 1
        st["evaluations"] += len(tr)
        if rc != 0 or not set(tr) <= set(full) or len(tr) < 100:
            agg["viols"].append((prefix + "/transcript-incomplete-or-crash", dict(selection=name, status=rc, lines=len(tr), replay=prefix + ":" + name)))
            continue
        en = set(cfg)
        nbad = 0
        for key in full:
            if keep and key.split("|")[0] not in keep:
                continue
            want = expected_line(key, full, unk, en)
            got = tr.get(key)
            if key.startswith("H|"):
                # a generated setting is hashed only when the generator succeeded
                gkey = "G|%s|%s|0|%s" % (key.split("|")[1], key.split("|")[2], key.split("|")[3])
                gen_ok = not tr.get(gkey, "NULL").startswith("NULL")
                want = "hashes" if gen_ok else None
                if want == got:
                    continue
            elif got is None:
                want = want or "(a line)"
            elif key.startswith("N|"):
                default = next((TAGS[c] for c in DEFAULT_CANDIDATES if c in en), None)
                ok = got.endswith("same-as-preferred") and ((got.startswith("NULL|22") and not default) or (default and got.startswith(default)))
                if not ok:
                    want = "NULL|22|same-as-preferred" if not default else default + "...|0|same-as-preferred"
                else:
                    continue
            elif want is None or want == got:
                continue
            nbad += 1
            if nbad <= 3:
                f = key.split("|")
                meth = ORDER[int(f[1])] if len(f) > 1 and f[1].isdigit() else f[0]
                state = "enabled" if meth in en else "disabled"
                agg["viols"].append((prefix + "/%s-method-misbehaves/%s/%s" % (state, meth, f[0]),
                                     dict(selection=name, request=key, got=got, expected=want, replay=prefix + ":" + name)))
        if nbuilt % 25 == 1:
            agg["samples"].append({"selection": name, "requests_compared": len(full)})
    return nbuilt


def run(job, tier, deadline_s):
    t0 = time.time()
    agg = dict(stats={}, samples=[], viols=[], done=1, complete=1, errors=[], stderr=[], hsets={}, nshards=1)
    st = agg["stats"]
    thorough = tier == "thorough"
    allh = sorted(TAGS)
    hashes, groups = parse_groups()
    if sorted(hashes) != allh:
        agg["viols"].append(("hashes.conf-method-list-changed", dict(found=sorted(hashes), expected=allh, replay="")))
    # ---------------- Level 1 ----------------
    sels = []
    if thorough:
        for mask in range(1, 1 << 16):
            sels.append(tuple(h for i, h in enumerate(allh) if mask >> i & 1))
    else:
        for r in (1, 2, 14, 15, 16):
            sels += list(itertools.combinations(allh, r))
    sels = list(dict.fromkeys(sels))
    nviol_before = len(agg["viols"])
    with ThreadPoolExecutor(build.NCPU) as ex:
        for sel, res in zip(sels, ex.map(level1_one, sels)):
            for sig, case in res:
                case["replay"] = "level1:" + ",".join(sel)
                if len(agg["viols"]) - nviol_before < 40:
                    agg["viols"].append(("level1/" + sig, case))
            if time.time() - t0 > deadline_s * 0.8:
                agg["complete"] = 0
                break
    st["level1_selections"] = len(sels)
    st["evaluations"] = len(sels)
    # named groups expand to the hashes.conf flags
    scripts = os.path.join(build.REPO, "build-aux", "scripts")
    conf = os.path.join(build.REPO, "lib", "hashes.conf")
    for g, members in sorted(groups.items()):
        p = subprocess.run(["perl", os.path.join(scripts, "expand-selected-hashes"), conf, g], stdout=subprocess.PIPE, stderr=subprocess.PIPE)
        got = p.stdout.decode().strip().strip(",").split(",")
        st["named_groups"] = st.get("named_groups", 0) + 1
        if sorted(got) != sorted(members):
            agg["viols"].append(("level1/named-group-expansion-wrong/%s" % g, dict(group=g, got=got, expected=sorted(members), replay="level1:" + g)))
    for bad in ("all,descrypt", "nosuchhash", ""):
        p = subprocess.run(["perl", os.path.join(scripts, "expand-selected-hashes"), conf, bad], stdout=subprocess.PIPE, stderr=subprocess.PIPE)
        if p.returncode == 0 and p.stdout.decode().strip() not in ("", ","):
            agg["viols"].append(("level1/invalid-selection-accepted", dict(selection=bad, got=p.stdout.decode().strip(), replay="level1:" + bad)))
    # ---------------- Level 2 ----------------
    cls = clusters()
    st["clusters"] = len(cls)
    configs = []
    for c in cls:
        rest = [h for h in allh if h not in c]
        subsets = []
        if thorough or len(c) <= 4:
            for r in range(0, len(c) + 1):
                subsets += list(itertools.combinations(c, r))
        else:
            core = [h for h in c if h in ("yescrypt", "scrypt", "gost_yescrypt")]
            others = [h for h in c if h not in core]
            for r in range(0, len(core) + 1):
                for s in itertools.combinations(core, r):
                    subsets.append(tuple(s) + tuple(others))
                    subsets.append(tuple(s))
        for s in subsets:
            configs.append(tuple(sorted(set(s) | set(rest))))        # background: all other methods on
            if thorough or len(c) <= 3:
                configs.append(tuple(sorted(s)))                     # background: all other methods off
    configs += [(h,) for h in allh]
    configs += [tuple(x for x in allh if x != h) for h in allh]
    configs += [tuple(sorted(m)) for m in groups.values()]
    configs = [c for c in dict.fromkeys(configs) if c and len(c) < 16]
    st["level2_configurations"] = len(configs)
    full_var = build.build_variant("o1")
    rc, full = transcript(full_var, "full")
    if rc != 0 or len(full) < 500:
        agg["errors"].append("full-build transcript failed (%d lines)" % len(full))
        return agg
    unk = dict(crypt=full["U|crypt"], gensalt=full["U|gensalt"], checksalt=full["U|checksalt"])
    st["transcript_requests"] = len(full)
    agg["samples"].append({"clusters": cls, "full_build_requests": len(full)})
    nbuilt = level2(configs, full, unk, agg, st, t0, deadline_s, allh)
    st["level2_built"] = nbuilt
    st["distinct_nontrivial"] = nbuilt + st["level1_selections"]
    agg["wall"] = time.time() - t0
    return agg


def run_c18(job, tier, deadline_s):
    """C18 over build configurations: every subset of the default-capable methods against several backgrounds; only the
    requests C18 speaks about (preferred method, its checksalt class, NULL-prefix generation, the header macro, checksalt of
    every method's settings) are compared."""
    t0 = time.time()
    agg = dict(stats={}, samples=[], viols=[], done=1, complete=1, errors=[], stderr=[], hsets={}, nshards=1)
    st = agg["stats"]
    st["evaluations"] = 0
    allh = sorted(TAGS)
    cands = list(DEFAULT_CANDIDATES)
    backgrounds = [(), ("gost_yescrypt", "scrypt", "bcrypt_a", "sha256crypt", "descrypt")]
    if tier == "thorough":
        backgrounds += [("gost_yescrypt",), ("bcrypt_y", "bcrypt_x", "md5crypt", "nt"), tuple(h for h in allh if h not in cands)]
    configs = []
    for r in range(0, len(cands) + 1):
        for s in itertools.combinations(cands, r):
            for b in backgrounds:
                configs.append(tuple(sorted(set(s) | set(b))))
    # the prefix-less DES family shares its recognition code: every subset of {descrypt, bigcrypt, bsdicrypt} next to one strong method
    for r in range(0, 4):
        for s in itertools.combinations(("descrypt", "bigcrypt", "bsdicrypt"), r):
            configs.append(tuple(sorted(set(s) | {"sha512crypt"})))
    configs = [c for c in dict.fromkeys(configs) if c and len(c) < 16]
    st["c18_configurations"] = len(configs)
    full_var = build.build_variant("o1")
    rc, full = transcript(full_var, "full")
    if rc != 0 or len(full) < 500:
        agg["errors"].append("full-build transcript failed (%d lines)" % len(full))
        return agg
    unk = dict(crypt=full["U|crypt"], gensalt=full["U|gensalt"], checksalt=full["U|checksalt"])
    st["c18_built"] = level2(configs, full, unk, agg, st, t0, deadline_s, allh, prefix="configuration", keep=("P", "Q", "N", "D", "K"))
    agg["samples"].append({"configurations": [",".join(c) for c in configs[:6]], "requests": "P Q N D K"})
    agg["wall"] = time.time() - t0
    return agg
