/* C03: a different passphrase or salt never reproduces the hash. */
#include "vh_rt.h"
#include "vh_methods.h"
#include "vh_grammar.h"
#include <crypt.h>
#include <stdlib.h>
#include "vh_shape.h"

static struct crypt_data *d1, *d2;
static char cj[2000];

/* base setting used per method and where its salt lies */
struct base { const char *s; int salt_off, salt_len; const char *alt_cost; };
static const struct base bases[M_COUNT] = {
  [M_YESCRYPT] = { "$y$j/.$ABCDEFGH$", 7, 8, "$y$j0.$ABCDEFGH$" },
  [M_GOST] = { "$gy$j/.$ABCDEFGH$", 8, 8, "$gy$j0.$ABCDEFGH$" },
  [M_SCRYPT] = { "$7$2/..../....ABCDEFGH$", 14, 8, "$7$3/..../....ABCDEFGH$" },
  [M_BCRYPT_B] = { "$2b$04$abcdefghijklmnopqrstuu", 7, 22, "$2b$05$abcdefghijklmnopqrstuu" },
  [M_BCRYPT_Y] = { "$2y$04$abcdefghijklmnopqrstuu", 7, 22, "$2y$05$abcdefghijklmnopqrstuu" },
  [M_BCRYPT_A] = { "$2a$04$abcdefghijklmnopqrstuu", 7, 22, "$2a$05$abcdefghijklmnopqrstuu" },
  [M_BCRYPT_X] = { "$2x$04$abcdefghijklmnopqrstuu", 7, 22, "$2x$05$abcdefghijklmnopqrstuu" },
  [M_SHA512] = { "$6$rounds=1000$saltSALTsaltSALT", 15, 16, "$6$rounds=1001$saltSALTsaltSALT" },
  [M_SHA256] = { "$5$rounds=1000$saltSALTsaltSALT", 15, 16, "$5$rounds=1001$saltSALTsaltSALT" },
  [M_SHA1] = { "$sha1$24$saltSALTsalt", 9, 12, "$sha1$25$saltSALTsalt" },
  [M_SUNMD5] = { "$md5,rounds=1$saltSALT", 14, 8, "$md5,rounds=2$saltSALT" },
  [M_MD5] = { "$1$saltSALT", 3, 8, 0 },
  [M_NT] = { "$3$", 0, 0, 0 },
  [M_BSDI] = { "_1...salt", 5, 4, "_/...salt" },
  [M_BIG] = { "ab............", 0, 2, 0 },
  [M_DES] = { "ab", 0, 2, 0 },
};

static int
window (int m)
{
  return vh_methods[m].phrase_window ? vh_methods[m].phrase_window : 511;
}

/* 7-bit phrase contents for the methods whose 8th-bit behaviour the property exempts */
static int
seven_bit (int m)
{
  return vh_methods[m].bit8_ignored || m == M_BCRYPT_A;
}

static void
base_phrase (int m, char *dst, size_t n)
{
  vh_fill (dst, n, seven_bit (m) ? 'A' : 'P');
}

/* perturbations of byte B: up to 4 replacement values, all non-NUL and (7-bit methods) different in the low 7 bits */
static int
perturb (int m, unsigned char b, unsigned char *out)
{
  int n = 0;
  if (vh_thorough)
    {
      /* thorough: every single-bit flip, a different low-7-bit value, and the complement */
      unsigned char cand[10] = { (unsigned char) (b ^ 1), (unsigned char) (b ^ 2), (unsigned char) (b ^ 4), (unsigned char) (b ^ 8), (unsigned char) (b ^ 16), (unsigned char) (b ^ 32),
        (unsigned char) (b ^ 64), (unsigned char) ((b & 0x80) | ((b + 7) & 0x7f)), (unsigned char) (b ^ 0x7f), (unsigned char) (b ^ 0x80) };
      for (int i = 0; i < 10; i++)
        {
          unsigned char c = cand[i];
          if (i == 9 && seven_bit (m))
            continue;
          if (c == 0 || c == b)
            continue;
          if (seven_bit (m) && ((c & 0x7f) == 0 || (c & 0x80) || (c & 0x7f) == (b & 0x7f)))
            continue;
          out[n++] = c;
        }
      return n;
    }
  unsigned char cand[4] = { (unsigned char) (b ^ 1), (unsigned char) (b ^ 0x40), (unsigned char) ((b & 0x80) | ((b + 7) & 0x7f)), (unsigned char) (b ^ 0x80) };
  for (int i = 0; i < 4; i++)
    {
      unsigned char c = cand[i];
      if (i == 3 && seven_bit (m))
        continue;
      if (c == 0 || c == b)
        continue;
      if (seven_bit (m) && ((c & 0x7f) == 0 || (c & 0x80) || (c & 0x7f) == (b & 0x7f)))
        continue;
      out[n++] = c;
    }
  return n;
}

static char *
hash (const char *p, const char *s, struct crypt_data *d)
{
  vh_stat ("evaluations", 1);
  return crypt_rn (p, s, d, sizeof *d);
}

static void
false_accept (int m, const char *kind, size_t L, long pos, int newbyte, const char *replay, const char *H, const char *got)
{
  char sig[200];
  snprintf (sig, sizeof sig, "false-accept/%s/method=%s", kind, vh_methods[m].name);
  vh_viol (sig, "{\"method\":\"%s\",\"kind\":\"%s\",\"phrase_len\":%zu,\"position\":%ld,\"new_byte\":%d,\"setting\":%s,\"H\":%s,\"other_phrase_gives\":%s,\"replay\":\"%s\"}",
           vh_methods[m].name, kind, L, pos, newbyte, vh_jstr (bases[m].s), vh_jstr (H), vh_jstr (got), replay);
}

/* (a) phrase of window length, one position, all perturbations */
static void
slab_a (int m, int pos)
{
  size_t L = (size_t) window (m);
  char P[520], H[CRYPT_OUTPUT_SIZE], rp[48];
  unsigned char pv[12];
  base_phrase (m, P, L);
  char *h = hash (P, bases[m].s, d1);
  if (!h)
    vh_internal ("base hash failed for %s", bases[m].s);
  strcpy (H, h);
  int np = perturb (m, (unsigned char) P[pos], pv);
  snprintf (rp, sizeof rp, "a:%d:%d", m, pos);
  for (int i = 0; i < np; i++)
    {
      char save = P[pos];
      P[pos] = (char) pv[i];
      char *g = hash (P, H, d2);
      vh_stat ("perturbations", 1);
      if (g && !strcmp (g, H))
        false_accept (m, "byte-change", L, pos, pv[i], rp, H, g);
      else if (vh_distinct (vh_hash_str (g ? g : "(null)", (uint64_t) m)))
        vh_stat ("distinct_nontrivial", 1);
      P[pos] = save;
    }
}

/* (b) length L: positions {0, L/2, L-1}, truncation, extension */
static void
slab_b (int m, int L)
{
  int W = window (m);
  if (L > W)
    return;
  char P[520], Q[520], H[CRYPT_OUTPUT_SIZE], rp[48];
  unsigned char pv[12];
  base_phrase (m, P, (size_t) L);
  char *h = hash (P, bases[m].s, d1);
  if (!h)
    vh_internal ("base hash failed for %s", bases[m].s);
  strcpy (H, h);
  snprintf (rp, sizeof rp, "b:%d:%d", m, L);
  int poss[3] = { 0, L / 2, L - 1 };
  for (int k = 0; k < 3 && L > 0; k++)
    {
      if (k && poss[k] == poss[k - 1])
        continue;
      int np = perturb (m, (unsigned char) P[poss[k]], pv);
      for (int i = 0; i < np && i < 2; i++)
        {
          memcpy (Q, P, (size_t) L + 1);
          Q[poss[k]] = (char) pv[i];
          char *g = hash (Q, H, d2);
          vh_stat ("perturbations", 1);
          if (g && !strcmp (g, H))
            false_accept (m, "byte-change", (size_t) L, poss[k], pv[i], rp, H, g);
        }
    }
  if (L > 0)
    {
      memcpy (Q, P, (size_t) L);
      Q[L - 1] = 0;
      char *g = hash (Q, H, d2);
      vh_stat ("perturbations", 1);
      if (g && !strcmp (g, H))
        false_accept (m, "truncation", (size_t) L, L - 1, 0, rp, H, g);
    }
  /* a 13-character result is a descrypt hash whatever setting produced it: its documented window is 8 */
  if (m == M_BIG && strlen (H) <= 13)
    W = 8;
  if (L < W && L < 511)
    {
      memcpy (Q, P, (size_t) L);
      Q[L] = 'q';
      Q[L + 1] = 0;
      char *g = hash (Q, H, d2);
      vh_stat ("perturbations", 1);
      if (g && !strcmp (g, H))
        false_accept (m, "extension", (size_t) L, L, 'q', rp, H, g);
    }
}

/* (c) small scope: all strings of length <= 4 over a 4-letter alphabet hash pairwise differently */
static int
cmpstr (const void *a, const void *b)
{
  return strcmp (*(char *const *) a, *(char *const *) b);
}

static void
slab_c (int m)
{
  unsigned char al[4] = { 0x01, 'a', 0x80, 0xff };
  if (seven_bit (m))
    {
      al[2] = 'b';
      al[3] = 0x7f;
    }
  int lim = vh_thorough ? 4 : 3;
  static char *hs[400];
  static char ph[400][8];
  int n = 0;
  for (int len = 0; len <= lim; len++)
    {
      int total = 1;
      for (int i = 0; i < len; i++)
        total *= 4;
      for (int v = 0; v < total; v++)
        {
          int x = v;
          for (int i = 0; i < len; i++, x /= 4)
            ph[n][i] = (char) al[x % 4];
          ph[n][len] = 0;
          char *h = hash (ph[n], bases[m].s, d1);
          if (!h)
            vh_internal ("small-scope hash failed");
          hs[n] = strdup (h);
          n++;
        }
    }
  static char *sorted[400];
  memcpy (sorted, hs, sizeof (char *) * (size_t) n);
  qsort (sorted, (size_t) n, sizeof *sorted, cmpstr);
  for (int i = 1; i < n; i++)
    if (!strcmp (sorted[i], sorted[i - 1]))
      {
        char sig[160];
        int a = -1, b = -1;
        for (int j = 0; j < n; j++)
          if (!strcmp (hs[j], sorted[i]))
            {
              if (a < 0)
                a = j;
              else
                b = j;
            }
        snprintf (sig, sizeof sig, "false-accept/small-scope-collision/method=%s", vh_methods[m].name);
        vh_viol (sig, "{\"method\":\"%s\",\"phrase_a\":\"%s\",\"phrase_b\":\"%s\",\"H\":%s,\"replay\":\"c:%d\"}", vh_methods[m].name,
                 vh_js (ph[a], strlen (ph[a])), vh_js (ph[b], strlen (ph[b])), vh_jstr (sorted[i]), m);
        break;
      }
  vh_stat ("small_scope_phrases", n);
  vh_stat ("distinct_nontrivial", n);
  for (int i = 0; i < n; i++)
    free (hs[i]);
}

/* (e) a byte whose low seven bits are all zero or all one at position POS (0x80 / 0xFF: to a method that ignores the
   8th bit these are a zero and a 0x7f key byte, not the end of the phrase): every other position of the window
   (windows up to 128) or the neighbours, the middle and both ends (longer windows) must still take part */
static void
slab_e (int m, int pos)
{
  if (m == M_BCRYPT_A || m == M_BCRYPT_X)
    return;                     /* $2a$/$2x$: what 8-bit input does there is the documented legacy quirk */
  int W = window (m);
  char P[520], Q[520], H[CRYPT_OUTPUT_SIZE], rp[48];
  unsigned char pv[12];
  static const unsigned char xs[2] = { 0x80, 0xff };
  for (int xi = 0; xi < 2; xi++)
    {
      base_phrase (m, P, (size_t) W);
      P[pos] = (char) xs[xi];
      char *h = hash (P, bases[m].s, d1);
      if (!h)
        vh_internal ("base hash failed for %s", bases[m].s);
      strcpy (H, h);
      snprintf (rp, sizeof rp, "e:%d:%d", m, pos);
      int qs[8], nq = 0;
      if (W > 128)
        {
          int cand[6] = { pos + 1, pos + 2, pos - 1, 0, W - 1, (pos + W) / 2 };
          for (int i = 0; i < 6; i++)
            if (cand[i] >= 0 && cand[i] < W && cand[i] != pos)
              qs[nq++] = cand[i];
        }
      for (int q = 0; q < (W > 128 ? nq : W); q++)
        {
          int qq = W > 128 ? qs[q] : q;
          if (qq == pos)
            continue;
          if (!perturb (m, (unsigned char) P[qq], pv))
            continue;
          memcpy (Q, P, (size_t) W + 1);
          Q[qq] = (char) pv[0];
          char *g = hash (Q, H, d2);
          vh_stat ("perturbations", 1);
          vh_stat ("perturbations_after_special_byte", 1);
          if (g && !strcmp (g, H))
            false_accept (m, xi ? "byte-change-with-0xff-elsewhere" : "byte-change-with-0x80-elsewhere", (size_t) W, qq, pv[0], rp, H, g);
        }
    }
}

/* (d) salt: every single-character change, and a cost step */
static int salt_char_must_count;   /* the changed character lies inside the salt length the method documents as significant: dropping it from the echo is no excuse */
static int numeric_cost_differs;   /* the two settings spell numerically different costs: equal hash parts are a violation even when the echoed settings coincide */
static void
compare_settings (int m, const char *P, const char *S1, const char *S2, const char *what, long pos, const char *replay)
{
  char H1[CRYPT_OUTPUT_SIZE], H2[CRYPT_OUTPUT_SIZE], sig[160];
  char *h = hash (P, S1, d1);
  if (!h)
    return;
  strcpy (H1, h);
  h = hash (P, S2, d2);
  vh_stat ("salt_changes", 1);
  if (!h)
    return;
  strcpy (H2, h);
  size_t o1 = hash_off (method_of (H1), H1), o2 = hash_off (method_of (H2), H2);
  if (o1 == o2 && !strncmp (H1, H2, o1) && !numeric_cost_differs && !salt_char_must_count)
    return;                     /* same canonical setting part: no obligation */
  if (!strcmp (H1 + o1, H2 + o2))
    {
      snprintf (sig, sizeof sig, "salt-or-cost-not-in-hash/%s/method=%s", what, vh_methods[m].name);
      vh_viol (sig, "{\"method\":\"%s\",\"what\":\"%s\",\"position\":%ld,\"setting_a\":%s,\"setting_b\":%s,\"H_a\":%s,\"H_b\":%s,\"replay\":\"%s\"}",
               vh_methods[m].name, what, pos, vh_jstr (S1), vh_jstr (S2), vh_jstr (H1), vh_jstr (H2), replay);
    }
}

static void
slab_d (int m)
{
  const struct base *B = &bases[m];
  char S2[128], rp[32];
  snprintf (rp, sizeof rp, "d:%d", m);
  const char *alpha = (m >= M_BCRYPT_B && m <= M_BCRYPT_X) ? ABF : A64;
  const char *phr[2] = { "pw", "a-longer-passphrase-of-33-bytes!!" };
  for (int pj = 0; pj < 2; pj++)
    {
      for (int i = 0; i < B->salt_len; i++)
        for (int r = 0; r < 3; r++)
          {
            strcpy (S2, B->s);
            const char *q = strchr (alpha, S2[B->salt_off + i]);
            int ix = q ? (int) (q - alpha) : 0;
            S2[B->salt_off + i] = alpha[(ix + (r == 0 ? 1 : r == 1 ? 17 : 32)) % 64];
            compare_settings (m, phr[pj], B->s, S2, "salt-character", B->salt_off + i, rp);
          }
      if (B->alt_cost)
        compare_settings (m, phr[pj], B->s, B->alt_cost, "cost-step", -1, rp);
      /* decimal cost fields: the same number plus 2^32 / 2^33 is a different cost (or is refused) */
      if (m == M_SHA512 || m == M_SHA256)
        {
          static const char *const wraps[] = { "4294968296", "8589935592", "281474976711656" };
          for (int w = 0; w < 3; w++)
            {
              snprintf (S2, sizeof S2, "%.3srounds=%s$saltSALTsaltSALT", B->s, wraps[w]);
              numeric_cost_differs = 1;
              compare_settings (m, phr[pj], B->s, S2, "cost-plus-2^32", -1, rp);
              numeric_cost_differs = 0;
            }
        }
    }
}

/* (h) every value of the other methods' numeric cost fields over a range: the hash parts must be pairwise different (a loop
   that rounds the count, a decoder that drops a digit or a bit, maps two costs to one) */
static const struct { int m; const char *name; int lo, hi; } hfields[] = {
  { M_SHA256, "sha256crypt-rounds", 1000, 1064 }, { M_SHA512, "sha512crypt-rounds", 1000, 1064 }, { M_SHA1, "sha1crypt-iterations", 1, 64 },
  { M_SUNMD5, "sunmd5-rounds", 1, 40 }, { M_BCRYPT_B, "bcrypt-cost", 4, 9 }, { M_BSDI, "bsdicrypt-count", 1, 130 },
  { M_SCRYPT, "scrypt-N", 2, 10 }, { M_SCRYPT, "scrypt-r", 1, 70 }, { M_SCRYPT, "scrypt-p", 1, 70 },
};
#define NHFIELDS ((int) (sizeof hfields / sizeof *hfields))

static void
hsetting (int fi, int v, char *dst, size_t dl)
{
  switch (fi)
    {
    case 0: snprintf (dst, dl, "$5$rounds=%d$saltSALT", v); break;
    case 1: snprintf (dst, dl, "$6$rounds=%d$saltSALT", v); break;
    case 2: snprintf (dst, dl, "$sha1$%d$saltSALT", v); break;
    case 3: snprintf (dst, dl, "$md5,rounds=%d$saltSALT", v); break;
    case 4: snprintf (dst, dl, "$2b$%02d$abcdefghijklmnopqrstuu", v); break;
    case 5: snprintf (dst, dl, "_%c%c..salt", A64[v & 63], A64[(v >> 6) & 63]); break;
    case 6: snprintf (dst, dl, "$7$%c/..../....saltSALT", A64[v]); break;
    case 7: snprintf (dst, dl, "$7$4%c%c.../....saltSALT", A64[v & 63], A64[(v >> 6) & 63]); break;
    default: snprintf (dst, dl, "$7$4/....%c%c...saltSALT", A64[v & 63], A64[(v >> 6) & 63]); break;
    }
}

static void
slab_h (int fi)
{
  enum { HMAX = 140 };
  static char hp[HMAX][100], st[HMAX][64];
  char rp[32], sig[160];
  int m = hfields[fi].m, n = hfields[fi].hi - hfields[fi].lo + 1;
  snprintf (rp, sizeof rp, "h:%d", fi);
  for (int i = 0; i < n; i++)
    {
      hsetting (fi, hfields[fi].lo + i, st[i], sizeof st[i]);
      char *h = hash ("pw", st[i], d1);
      vh_stat ("cost_values", 1);
      if (!h)
        {
          snprintf (sig, sizeof sig, "cost-value-refused/%s", hfields[fi].name);
          vh_viol (sig, "{\"method\":\"%s\",\"field\":\"%s\",\"value\":%d,\"setting\":%s,\"replay\":\"%s\"}", vh_methods[m].name, hfields[fi].name, hfields[fi].lo + i, vh_jstr (st[i]), rp);
          return;
        }
      snprintf (hp[i], sizeof hp[i], "%s", h + hash_off (method_of (h), h));
    }
  if (fi == 5)
    {
      /* the upper bits of the 24-bit count: v against v + 2^20, 2^21, 2^22, 2^23 (up to 1.6 s per hash) */
      for (int k = 0; k < 4; k++)
        {
          char S2[64];
          int v = 1 + k, big = v + (1 << (20 + k));
          snprintf (S2, sizeof S2, "_%c%c%c%csalt", A64[big & 63], A64[(big >> 6) & 63], A64[(big >> 12) & 63], A64[(big >> 18) & 63]);
          char *h = hash ("pw", S2, d1);
          vh_stat ("cost_values", 1);
          if (h && !strcmp (h + hash_off (method_of (h), h), hp[v - hfields[fi].lo]))
            {
              snprintf (sig, sizeof sig, "salt-or-cost-not-in-hash/%s/method=%s", hfields[fi].name, vh_methods[m].name);
              vh_viol (sig, "{\"method\":\"%s\",\"what\":\"two values of the cost field give the same hash part\",\"value_a\":%d,\"value_b\":%d,\"setting_a\":%s,\"setting_b\":%s,\"replay\":\"%s\"}",
                       vh_methods[m].name, v, big, vh_jstr (st[v - hfields[fi].lo]), vh_jstr (S2), rp);
              return;
            }
        }
    }
  for (int a = 0; a < n; a++)
    for (int b = a + 1; b < n; b++)
      if (!strcmp (hp[a], hp[b]))
        {
          snprintf (sig, sizeof sig, "salt-or-cost-not-in-hash/%s/method=%s", hfields[fi].name, vh_methods[m].name);
          vh_viol (sig, "{\"method\":\"%s\",\"what\":\"two values of the cost field give the same hash part\",\"value_a\":%d,\"value_b\":%d,\"setting_a\":%s,\"setting_b\":%s,\"hash_part\":%s,\"replay\":\"%s\"}",
                   vh_methods[m].name, hfields[fi].lo + a, hfields[fi].lo + b, vh_jstr (st[a]), vh_jstr (st[b]), vh_jstr (hp[a]), rp);
          return;
        }
}

/* (f) salts of every length each method accepts (and a little beyond): a change of one salt character at any position, or
   a cost step, must change the hash part unless the echoed setting shows that the character was dropped */
/* sig: number of leading salt characters crypt(5) documents as significant (md5crypt 8, sha-crypt 16, the others the whole salt) */
static const struct { int m; const char *head, *head2; int maxlen, yenc, sig; } fheads[] = {
  { M_MD5, "$1$", 0, 24, 0, 8 }, { M_SHA256, "$5$rounds=1000$", "$5$rounds=1001$", 40, 0, 16 }, { M_SHA512, "$6$rounds=1000$", "$6$rounds=1001$", 40, 0, 16 },
  { M_SHA1, "$sha1$20$", "$sha1$21$", 340, 0, 1000 }, { M_SHA1, "$sha1$0$", "$sha1$1$", 340, 0, 1000 }, { M_SUNMD5, "$md5$", "$md5,rounds=1$", 48, 0, 1000 },
  { M_SCRYPT, "$7$2/..../....", "$7$3/..../....", 300, 0, 1000 }, { M_YESCRYPT, "$y$j/.$", "$y$j0.$", 86, 1, 1000 }, { M_GOST, "$gy$j/.$", "$gy$j0.$", 86, 1, 1000 },
  { M_SHA256, "$5$", 0, 40, 0, 16 }, { M_SHA512, "$6$", 0, 40, 0, 16 },
};
#define NFHEADS ((int) (sizeof fheads / sizeof *fheads))

static void
slab_f (int hi, int L)
{
  int m = fheads[hi].m;
  char S1[VH_SETMAX], S2[VH_SETMAX], rp[48];
  size_t hl = strlen (fheads[hi].head);
  if (fheads[hi].yenc && L % 4 == 1)
    return;
  snprintf (rp, sizeof rp, "f:%d:%d", hi, L);
  memcpy (S1, fheads[hi].head, hl);
  vh_salt (S1 + hl, L, A64, L + 3);
  if (fheads[hi].yenc && L % 4 == 2)
    S1[hl + (size_t) L - 1] = A64[(strchr (A64, S1[hl + (size_t) L - 1]) - A64) & 3];
  if (fheads[hi].yenc && L % 4 == 3)
    S1[hl + (size_t) L - 1] = A64[(strchr (A64, S1[hl + (size_t) L - 1]) - A64) & 15];
  S1[hl + (size_t) L] = 0;
  for (int pos = 0; pos < L; pos++)
    {
      static const int edge[] = { 63, 64, 65, 89, 90, 91, 127, 128, 129, 255, 256, 257 };
      int sel = vh_thorough || L <= 24 || pos < 18 || pos < 2 || pos >= L - 2 || pos == L / 2;
      for (unsigned e = 0; e < sizeof edge / sizeof *edge; e++)
        sel |= pos == edge[e];
      if (!sel)
        continue;
      strcpy (S2, S1);
      int ix = (int) (strchr (A64, S2[hl + (size_t) pos]) - A64);
      int mod = 64;
      if (fheads[hi].yenc && pos == L - 1 && L % 4 == 2)
        mod = 4;
      if (fheads[hi].yenc && pos == L - 1 && L % 4 == 3)
        mod = 16;
      S2[hl + (size_t) pos] = A64[(ix + 1) % mod];
      salt_char_must_count = pos < fheads[hi].sig;
      compare_settings (m, "pw", S1, S2, "salt-character-of-a-long-salt", pos, rp);
      salt_char_must_count = 0;
    }
  if (fheads[hi].head2)
    {
      snprintf (S2, sizeof S2, "%s%s", fheads[hi].head2, S1 + hl);
      compare_settings (m, "pw", S1, S2, "cost-step-with-a-long-salt", -1, rp);
    }
}

/* (g) yescrypt cost fields r, p, t: every value 1..200 (both size classes of the number encoding).
   t is stepped at N = 2^7: for a tiny N yescrypt rounds the loop count up to even, so that e.g. t = 1 and t = 2 at N = 4 are
   the same amount of work and, by the algorithm's definition, the same hash */
static void
slab_g (int field, int w)
{
  /* all values 1..200 of one field: the hash parts must be pairwise different (a decoder that drops or misplaces bits of the
     multi-character numbers maps two values to the same cost) */
  enum { VMAX = 200 };
  static char hp[VMAX + 1][64];
  static char st[VMAX + 1][120];
  char rp[48], sig[160];
  const char *tag = w ? "$gy$" : "$y$";
  int m = w ? M_GOST : M_YESCRYPT;
  const char *fname = field == 0 ? "yescrypt-r" : field == 1 ? "yescrypt-p" : field == 2 ? "yescrypt-t" : "yescrypt-t-with-prehash";
  snprintf (rp, sizeof rp, "g:%d:%d", field, w);
  int vmax = field == 3 ? 6 : VMAX;
  for (int v = 1; v <= vmax; v++)
    {
      if (field == 3)
        /* t at a size that takes yescrypt's pre-hash path (N/p >= 0x100 and N*r/p >= 0x20000): 16 MiB, t = 0..5 */
        vh_ysetting (st[v], sizeof st[v], tag, 12, 32, 1, (uint32_t) v - 1, "saltSALT");
      else if (field == 0)
        vh_ysetting (st[v], sizeof st[v], tag, 2, (uint32_t) v, 1, 0, "saltSALT");
      else if (field == 1)
        vh_ysetting (st[v], sizeof st[v], tag, 10, 1, (uint32_t) v, 0, "saltSALT");
      else
        vh_ysetting (st[v], sizeof st[v], tag, 7, 1, 1, (uint32_t) v, "saltSALT");
      char *h = hash ("pw", st[v], d1);
      vh_stat ("yescrypt_cost_values", 1);
      hp[v][0] = 0;
      if (!h)
        {
          snprintf (sig, sizeof sig, "cost-value-refused/%s/method=%s", fname, vh_methods[m].name);
          vh_viol (sig, "{\"method\":\"%s\",\"field\":\"%s\",\"value\":%d,\"setting\":%s,\"replay\":\"%s\"}", vh_methods[m].name, fname, v, vh_jstr (st[v]), rp);
          return;
        }
      snprintf (hp[v], sizeof hp[v], "%s", h + hash_off (method_of (h), h));
    }
  for (int a = 1; a <= vmax; a++)
    for (int b = a + 1; b <= vmax; b++)
      if (!strcmp (hp[a], hp[b]))
        {
          snprintf (sig, sizeof sig, "salt-or-cost-not-in-hash/%s/method=%s", fname, vh_methods[m].name);
          vh_viol (sig, "{\"method\":\"%s\",\"what\":\"two values of the field give the same hash part\",\"value_a\":%d,\"value_b\":%d,\"setting_a\":%s,\"setting_b\":%s,\"hash_part\":%s,\"replay\":\"%s\"}",
                   vh_methods[m].name, a, b, vh_jstr (st[a]), vh_jstr (st[b]), vh_jstr (hp[a]), rp);
          return;
        }
}

int
main (int argc, char **argv)
{
  vh_init (argc, argv);
  vh_mmap_cap = (size_t) 64 << 20;
  d1 = calloc (1, sizeof *d1);
  d2 = calloc (1, sizeof *d2);
  if (vh_replay && *vh_replay)
    {
      int a, b;
      if (sscanf (vh_replay, "a:%d:%d", &a, &b) == 2)
        slab_a (a, b);
      else if (sscanf (vh_replay, "b:%d:%d", &a, &b) == 2)
        slab_b (a, b);
      else if (sscanf (vh_replay, "e:%d:%d", &a, &b) == 2)
        slab_e (a, b);
      else if (sscanf (vh_replay, "f:%d:%d", &a, &b) == 2)
        slab_f (a, b);
      else if (sscanf (vh_replay, "g:%d:%d", &a, &b) == 2)
        slab_g (a, b);
      else if (sscanf (vh_replay, "h:%d", &a) == 1)
        slab_h (a);
      else if (sscanf (vh_replay, "c:%d", &a) == 1)
        slab_c (a);
      else if (sscanf (vh_replay, "d:%d", &a) == 1)
        slab_d (a);
      else
        vh_internal ("bad replay token");
      vh_done ();
      return 0;
    }
  uint64_t idx = 0;
  for (int m = 0; m < M_COUNT; m++)
    if (vh_mine (idx++))
      slab_d (m);
  for (int m = 0; m < M_COUNT; m++)
    if (vh_mine (idx++))
      slab_c (m);
  for (int field = 0; field < 4; field++)
    for (int w = 0; w < 2; w++)
      if (vh_mine (idx++))
        slab_g (field, w);
  for (int fi = 0; fi < NHFIELDS; fi++)
    if (vh_mine (idx++))
      slab_h (fi);
  for (int hi = 0; hi < NFHEADS; hi++)
    for (int L = 1; L <= fheads[hi].maxlen; L++)
      if (vh_mine (idx++))
        slab_f (hi, L);
  for (int m = 0; m < M_COUNT && !vh_expired (); m++)
    {
      int expensive = m == M_SUNMD5;
      for (int L = 0; L <= 511; L++)
        {
          if (!vh_thorough && expensive && L > 140 && L % 8 != 7 && L < 505)
            continue;
          if (vh_mine (idx++))
            slab_b (m, L);
        }
    }
  for (int m = 0; m < M_COUNT && !vh_expired (); m++)
    {
      int expensive = m == M_SUNMD5;
      int W = window (m);
      for (int pos = 0; pos < W; pos++)
        {
          int inlb = 0;
          for (int i = 0; i < VH_NLB; i++)
            if (vh_Lb[i] == pos)
              inlb = 1;
          if (!vh_thorough && expensive && !inlb && pos % 8 != 5)
            continue;
          if (vh_mine (idx++))
            {
              slab_a (m, pos);
              if (pos == 300 || pos == 5)
                vh_sample ("{\"slab\":\"a\",\"method\":\"%s\",\"phrase_len\":%d,\"position\":%d,\"perturbations\":\"bit0, bit6, low-7-bit change, bit7 where significant\"}",
                           vh_methods[m].name, W, pos);
            }
        }
    }
  for (int m = 0; m < M_COUNT && !vh_expired (); m++)
    {
      int W = window (m);
      for (int pos = 0; pos < W; pos++)
        {
          int inlb = 0;
          for (int i = 0; i < VH_NLB; i++)
            if (vh_Lb[i] == pos)
              inlb = 1;
          if (W > 128 && !inlb && !(vh_thorough && m != M_SUNMD5))
            continue;
          if (vh_mine (idx++))
            slab_e (m, pos);
        }
    }
  vh_done ();
  return 0;
}
