/* C05: failures are fail-closed.  Inputs: every byte value at every position of
   valid settings, every truncation, unknown prefixes, '*0'/'*1'/'*'/empty, NULL
   arguments, over-long phrases, small sizes; each from three prior states of the
   object (fresh, holding a success of a different phrase, holding a failure) and
   through the four entry points.  Histories: BFS to closure over an operation
   alphabet on two objects, state = observable fields of the objects. */
#include "vh_rt.h"
#include "vh_methods.h"
#include "vh_grammar.h"
#include <crypt.h>
#include "config.h"
#include <limits.h>
#include <stdlib.h>
#include "vh_shape.h"

static char cj[3000];
static int timeouts_here;     /* case-timer hits at the current (base, position): the rest of that position is skipped after 3 */
static struct crypt_data *D, *Dtok;
static char prev_success[M_COUNT][CRYPT_OUTPUT_SIZE];

enum { ST_FRESH, ST_SUCCESS, ST_FAILURE, NSTATES };
static const char *const stname[] = { "fresh", "holding-success", "holding-failure" };
static const char *const epname[] = { "crypt_rn", "crypt_r", "crypt_ra", "crypt", "crypt_ra(no handle yet)", "crypt_ra(undersized handle)" };
static void *ra_dp;           /* entry points 4 and 5: the handle crypt_ra allocates or replaces */

/* bring the object (or crypt()'s static object for ep 3) into a prior state.  Object images of
   "after a success of another phrase" and "after a failure" are captured once and copied in. */
static struct crypt_data *img_success[M_COUNT], *img_failure;
static const char *prev_for_call;

static void
prepare (int ep, int state, int m)
{
  prev_for_call = prev_success[m];
  if (ep == 3)
    {
      /* crypt()'s own static object can only be driven through crypt(): use the cheapest method */
      prev_for_call = prev_success[M_NT];
      if (state == ST_SUCCESS)
        (void) crypt ("previous-user-secret", vh_cheap[M_NT][0]);
      else if (state == ST_FAILURE)
        (void) crypt ("previous-user-secret", "$unknown$");
      return;
    }
  if (state == ST_FRESH)
    memset (D, 0, sizeof *D);
  else if (state == ST_SUCCESS)
    memcpy (D, img_success[m], sizeof *D);
  else
    memcpy (D, img_failure, sizeof *D);
}

/* the token left in OUT must be '*0'/'*1', differ from the setting, be < 13, and be rejected itself */
static int
token_ok (const char *out, const char *setting, char *why, size_t wl)
{
  if (strcmp (out, "*0") && strcmp (out, "*1"))
    {
      snprintf (why, wl, "output is not a failure token");
      return 0;
    }
  if (setting && !strcmp (out, setting))
    {
      snprintf (why, wl, "token equals the setting");
      return 0;
    }
  errno = 0;
  if (crypt_rn ("x", out, Dtok, sizeof *Dtok) != 0)
    {
      snprintf (why, wl, "token accepted as a setting");
      return 0;
    }
  return 1;
}

/* mandatory: 1 = this input must fail (property's list), 0 = may succeed */
static void
one_call (int ep, int state, int m, const char *phrase, const char *setting, int mandatory, const char *klass, const char *replay)
{
  char sig[220], why[80];
  if (ep < 4)
    prepare (ep, state, m);
  else
    prev_for_call = prev_success[m];
  size_t sl = setting ? strlen (setting) : 0;
  snprintf (cj, sizeof cj, "{\"entry\":\"%s\",\"prior_state\":\"%s\",\"class\":\"%s\",\"phrase_len\":%zu,\"setting\":%s,\"replay\":\"%s\"",
            epname[ep], stname[state], klass, phrase ? strlen (phrase) : 0, vh_jstr (setting), replay);
  char *r = 0;
  void *dp = D;
  int dsz = sizeof *D;
  if (ep >= 4)
    {
      /* the call itself must allocate (4) or replace (5) the object: the failure token has to survive that */
      free (ra_dp);
      ra_dp = 0;
      dsz = 0;
      if (ep == 5)
        {
          dsz = 200;
          ra_dp = malloc (200);
          memset (ra_dp, 0xA5, 200);
          snprintf (ra_dp, 200, "%s", state == ST_FAILURE ? "*0" : state == ST_SUCCESS ? prev_success[m] : "");
        }
    }
  /* errno as an earlier, unrelated libc call may have left it: a failing call must replace it with a documented code */
  static const int entry_errno[4] = { 0, ENOENT, EAGAIN, EPERM };
  errno = entry_errno[vh_hash_str (replay, 9) % 4];
  int k = VH_TRY (vh_thorough ? 3000 : 1000);
  if (k == 0)
    {
      switch (ep)
        {
        case 0: r = crypt_rn (phrase, setting, D, sizeof *D); break;
        case 1: r = crypt_r (phrase, setting, D); break;
        case 2: r = crypt_ra (phrase, setting, &dp, &dsz); break;
        case 4: case 5: r = crypt_ra (phrase, setting, &ra_dp, &dsz); break;
        default: r = crypt (phrase, setting); break;
        }
      VH_END ();
    }
  int e = errno;
  vh_stat ("evaluations", 1);
  if (k == VH_TIMEOUT)
    {
      vh_stat ("budget_skipped", 1);
      vh_stat ("case_timer_hits", 1);
      timeouts_here++;
      return;
    }
  if (k)
    {
      snprintf (sig, sizeof sig, "fatal/%s/%.50s/entry=%s/class=%s", vh_fatal_name (k), vh_fatal_msg, epname[ep], klass);
      vh_viol (sig, "%s,\"outcome\":\"%s\"}", cj, vh_js (vh_fatal_msg, strlen (vh_fatal_msg)));
      return;
    }
  if (dp != D)
    vh_internal ("crypt_ra moved an adequate block");
  const char *out = ep == 3 ? r : D->output;      /* crypt(): only the return value is observable */
  if (ep >= 4)
    out = ra_dp && dsz >= (int) sizeof (struct crypt_data) ? ((struct crypt_data *) ra_dp)->output : 0;
  int failed;
  if (ep == 0 || ep == 2 || ep >= 4)
    failed = r == 0;
  else
    failed = r == 0 || r[0] == '*';
  if (!failed)
    {
      if (mandatory)
        {
          snprintf (sig, sizeof sig, "invalid-input-hashed/class=%s/entry=%s", klass, epname[ep]);
          vh_viol (sig, "%s,\"result\":%s}", cj, vh_jstr (r));
          return;
        }
      vh_stat ("successes", 1);
      /* a success must be a real hash of the method (not an echo of a malformed setting, not a stale digest) */
      shape_init ();
      int hm = method_of (r);
      if (r[0] == '*' || strlen (r) >= CRYPT_OUTPUT_SIZE || regexec (&shape_rx[hm], r, 0, 0, 0))
        {
          snprintf (sig, sizeof sig, "malformed-setting-produced-non-hash/method=%s/entry=%s", vh_methods[m].name, epname[ep]);
          vh_viol (sig, "%s,\"result\":%s}", cj, vh_jstr (r));
          return;
        }
      if (state == ST_SUCCESS && vh_methods[m].hash_len)
        {
          size_t ho = hash_off (hm, r), po = hash_off (method_of (prev_for_call), prev_for_call);
          if (strlen (r + ho) >= 11 && !strcmp (r + ho, prev_for_call + po))
            {
              snprintf (sig, sizeof sig, "stale-digest-returned/method=%s/entry=%s", vh_methods[m].name, epname[ep]);
              vh_viol (sig, "%s,\"result\":%s,\"previous\":%s}", cj, vh_jstr (r), vh_jstr (prev_for_call));
              return;
            }
        }
      if (vh_distinct (vh_hash_str (r, 11)))
        vh_stat ("distinct_successes", 1);
      return;
    }
  vh_stat ("failures", 1);
  if (vh_distinct (vh_hash_str (setting ? setting : "(null)", (uint64_t) (ep * 4 + state))))
    vh_stat ("distinct_nontrivial", 1);
  /* every failure, mandatory or not */
  if ((ep == 0 || ep == 2 || ep >= 4) && r != 0)
    vh_internal ("unreachable");
  if (e != EINVAL && e != ERANGE && e != ENOMEM)
    {
      snprintf (sig, sizeof sig, "bad-errno/%d/class=%s/entry=%s", e, klass, epname[ep]);
      vh_viol (sig, "%s,\"errno\":%d}", cj, e);
      return;
    }
  if (ep == 1 || ep == 3)
    {
#if ENABLE_FAILURE_TOKENS
      if (r == 0)
        {
          snprintf (sig, sizeof sig, "no-failure-token-returned/entry=%s", epname[ep]);
          vh_viol (sig, "%s}", cj);
          return;
        }
#else
      if (r != 0)
        {
          snprintf (sig, sizeof sig, "failure-token-returned-in-null-build/entry=%s", epname[ep]);
          vh_viol (sig, "%s}", cj);
          return;
        }
#endif
    }
  if (out && !token_ok (out, setting, why, sizeof why))
    {
      snprintf (sig, sizeof sig, "bad-failure-output/%s/class=%s/entry=%s", why, klass, epname[ep]);
      vh_viol (sig, "%s,\"output\":\"%s\"}", cj, vh_js (out, strnlen (out, 40)));
      return;
    }
  if (state == ST_SUCCESS && out && !strcmp (out, prev_for_call))
    {
      snprintf (sig, sizeof sig, "stale-hash-left/class=%s/entry=%s", klass, epname[ep]);
      vh_viol (sig, "%s}", cj);
    }
}

/* all entry points x prior states for one input */
static void
all_ways (int m, const char *phrase, const char *setting, int mandatory, const char *klass, const char *replay, int full)
{
  for (int ep = 0; ep < 4; ep++)
    for (int st = 0; st < NSTATES; st++)
      {
        if (!full && !(ep == 0 || (ep == (int) (vh_hash_str (replay, 1) % 3) + 1 && st == ST_SUCCESS)))
          continue;
        one_call (ep, st, m, phrase, setting, mandatory, klass, replay);
      }
  /* crypt_ra on a handle it has to allocate or replace during the (failing) call */
  unsigned pick = (unsigned) (vh_hash_str (replay, 2) % 2);
  if (full || pick == 0)
    one_call (4, ST_FRESH, m, phrase, setting, mandatory, klass, replay);
  if (full || pick == 1)
    one_call (5, full ? ST_FAILURE : ST_SUCCESS, m, phrase, setting, mandatory, klass, replay);
  if (full)
    one_call (5, ST_SUCCESS, m, phrase, setting, mandatory, klass, replay);
}

/* slab 1: byte BV at position POS of base setting B of method M */
static const char *
base_of (int m, int b)
{
  static char withhash[M_COUNT][CRYPT_OUTPUT_SIZE];
  if (b < 2)
    return vh_cheap[m][b];
  if (!withhash[m][0])
    strcpy (withhash[m], prev_success[m]);
  return withhash[m];
}

static void
slab_bytes (int m, int b, int pos, int full)
{
  const char *s = base_of (m, b);
  size_t n = strlen (s);
  char buf[CRYPT_OUTPUT_SIZE + 4], rp[64];
  if ((size_t) pos > n)
    return;
  timeouts_here = 0;
  for (int bv = 1; bv < 256; bv++)
    {
      memcpy (buf, s, n + 1);
      if ((size_t) pos == n)
        {
          buf[n] = (char) bv;
          buf[n + 1] = 0;
        }
      else
        buf[pos] = (char) bv;
      if (!strcmp (buf, s))
        continue;
      /* compute budget: edits that raise a cost field beyond ~50 ms are not executed */
      int ix = bv < 128 && strchr (A64, bv) ? (int) (strchr (A64, bv) - A64) : -1;
      if ((m >= M_BCRYPT_B && m <= M_BCRYPT_X && pos == 4 && bv >= '1' && bv <= '3')
          || (m == M_BSDI && pos == 4 && ix > 3)
          || (m == M_SHA1 && pos >= 6 && pos <= 8 && bv == '-')       /* negative count wraps to ~2^64 iterations */
          || (m == M_SCRYPT && ((pos == 11 && ix > 4) || (pos == 12 && ix >= 1) || (pos == 3 && ix > 17)))
          || timeouts_here >= 3)
        {
          vh_stat ("budget_skipped", 1);
          continue;
        }
      int bad = vh_badsalt_model (buf);
      snprintf (rp, sizeof rp, "b:%d:%d:%d:%d", m, b, pos, bv);
      int everyway = full || bv == ':' || bv == 0x7f || bv == 0x20 || bv == 0x80 || bv == '*' || bv == '$' || bv == '=';
      all_ways (m, "pw", buf, bad, bad ? "forbidden-byte" : "byte-substitution", rp, everyway);
    }
  /* truncation at this position */
  memcpy (buf, s, (size_t) pos);
  buf[pos] = 0;
  snprintf (rp, sizeof rp, "b:%d:%d:%d:0", m, b, pos);
  all_ways (m, "pw", buf, 0, "truncation", rp, 1);
}

/* cost parameters outside the ranges crypt.5 documents: "malformed parameters" must fail closed */
static const char *const bad_cost[] = {
  "$6$rounds=999$saltSALT", "$6$rounds=1000000000$saltSALT", "$6$rounds=4294967295$saltSALT", "$6$rounds=4294968296$saltSALT", "$6$rounds=8589935592$saltSALT",
  "$6$rounds=18446744073709552616$saltSALT", "$6$rounds=0$saltSALT", "$6$rounds=01000$saltSALT",
  "$5$rounds=999$saltSALT", "$5$rounds=1000000000$saltSALT", "$5$rounds=4294968296$saltSALT", "$5$rounds=4294972296$saltSALT", "$5$rounds=281474976711656$saltSALT",
  "$2b$03$abcdefghijklmnopqrstuu", "$2b$32$abcdefghijklmnopqrstuu", "$2a$00$abcdefghijklmnopqrstuu", "$2y$99$abcdefghijklmnopqrstuu", "$2x$3$abcdefghijklmnopqrstuuu",
  "$md5,rounds=0$saltSALT", "$md5,rounds=4294967296$saltSALT", "$md5,rounds=01$saltSALT", "$md5$rounds=18446744073709551617$saltSALT",
  "$7$./..../....saltSALT", "$7$4...../....saltSALT", "$7$4/.........saltSALT", "$y$j.5$saltSALT", "$gy$j.5$saltSALT",
  "$sha1$x$saltSALT", 0
};

static void
slab_fixed (int which)
{
  static char p512[513], p513[514], p600[601], p511[512];
  vh_fill (p511, 511, 'P');
  vh_fill (p512, 512, 'P');
  vh_fill (p513, 513, 'A');
  vh_fill (p600, 600, 'P');
  char rp[32];
  snprintf (rp, sizeof rp, "f:%d", which);
  for (int m = 0; m < M_COUNT; m++)
    switch (which)
      {
      case 0: all_ways (m, "pw", "*0", 1, "setting-is-token", rp, 1); break;
      case 1: all_ways (m, "pw", "*1", 1, "setting-is-token", rp, 1); break;
      case 2: all_ways (m, "pw", "*", 1, "setting-is-star", rp, 1); break;
      case 3: all_ways (m, 0, vh_cheap[m][0], 1, "null-phrase", rp, 1); break;
      case 4: all_ways (m, "pw", 0, 1, "null-setting", rp, 1); break;
      case 5: all_ways (m, 0, 0, 1, "null-both", rp, 1); break;
      case 6: all_ways (m, p512, vh_cheap[m][0], 1, "phrase-512", rp, 1); break;
      case 7: all_ways (m, p513, vh_cheap[m][0], 1, "phrase-513", rp, 1); break;
      case 8: all_ways (m, p600, vh_cheap[m][0], 1, "phrase-600", rp, 1); break;
      case 9: all_ways (m, p511, vh_cheap[m][0], 0, "phrase-511-valid", rp, 1); break;
      case 10: all_ways (m, "pw", "$", 1, "lone-dollar", rp, 1); break;
      case 11: all_ways (m, "pw", "*0$1$saltSALT", 1, "token-prefixed-setting", rp, 1); break;
      case 12: all_ways (m, "pw", "!", 1, "locked-account-marker", rp, 1); break;
      case 13: all_ways (m, "pw", "x", 1, "one-character", rp, 1); break;
      case 14:
        if (m == 0)
          for (int i = 0; bad_cost[i]; i++)
            all_ways (M_NT, "pw", bad_cost[i], 1, "cost-out-of-documented-range", rp, 1);
        /* every two-digit bcrypt cost outside 04..31, for each subtype */
        if (m >= M_BCRYPT_B && m <= M_BCRYPT_X)
          for (int c = 0; c < 100; c++)
            {
              if (c >= 4 && c <= 31)
                continue;
              char bs[40];
              snprintf (bs, sizeof bs, "%.3s$%02d$abcdefghijklmnopqrstuu", vh_methods[m].tag, c);
              all_ways (m, "pw", bs, 1, "cost-out-of-documented-range", rp, c % 10 == 6);
            }
        break;
      }
}
#define NFIXED 15

/* salts that grow past what the output field can hold: each call either succeeds with a well-formed hash of the method or fails
   closed (for the methods that echo an unbounded salt, with 1-, 2- and 4-digit cost spellings) */
static void
slab_longsalt (int which, int L)
{
  static const char *const heads[] = { "$sha1$3$", "$sha1$24$", "$sha1$4096$", "$md5$", "$md5,rounds=7$", "$7$2/..../....", "$y$j/.$", "$gy$j/.$", "$1$", "$6$rounds=1000$" };
  static const int hm[] = { M_SHA1, M_SHA1, M_SHA1, M_SUNMD5, M_SUNMD5, M_SCRYPT, M_YESCRYPT, M_GOST, M_MD5, M_SHA512 };
  static char S[700];
  char rp[40];
  size_t hl = strlen (heads[which]);
  memcpy (S, heads[which], hl);
  for (int i = 0; i < L; i++)
    S[hl + (size_t) i] = A64[(i * 11 + L) % 64];
  S[hl + (size_t) L] = 0;
  snprintf (rp, sizeof rp, "l:%d:%d", which, L);
  all_ways (hm[which], "pw", S, 0, "over-long-salt", rp, L % 16 == 0);
  vh_stat ("long_salt_cases", 1);
}

/* a forbidden byte far into a long setting: valid settings followed by a tail (ignored by most methods) of total length
   384..1200, every forbidden byte class at the boundary positions of the 384-byte fields and at the very end */
static void
slab_longtail (int m, int li)
{
  static const int lens[] = { 383, 384, 385, 386, 400, 512, 767, 768, 1024, 1200 };
  static const unsigned char bad[] = { ':', ';', '*', '!', '\\', ' ', '\n', 0x7f, 0x80, 0xff, 0x01, '\t' };
  static char S[1300];
  char rp[40];
  int L = lens[li];
  const char *base = vh_cheap[m][0];
  size_t bl = strlen (base);
  snprintf (rp, sizeof rp, "t:%d:%d", m, li);
  int poss[6] = { 382, 383, 384, 385, L - 2, L - 1 };
  for (int pk = 0; pk < 6; pk++)
    {
      int pos = poss[pk];
      if (pos < (int) bl + 1 || pos >= L)
        continue;
      for (unsigned bi = 0; bi < sizeof bad; bi++)
        {
          memcpy (S, base, bl);
          S[bl] = '$';
          for (int i = (int) bl + 1; i < L; i++)
            S[i] = A64[(i * 5 + 1) % 64];
          S[L] = 0;
          S[pos] = (char) bad[bi];
          all_ways (m, "pw", S, 1, "forbidden-byte-in-a-long-tail", rp, bi == 0 && pk < 4);
          vh_stat ("long_tail_cases", 1);
        }
    }
}


/* unknown prefixes: '$' + every 1- and 2-character tag + '$' that no method owns */
static const char TAGCH[] = A64 ",";
static void
slab_unknown (int t)
{
  char buf[32], rp[32];
  int n1 = (int) strlen (TAGCH);
  if (t < n1)
    snprintf (buf, sizeof buf, "$%c$saltSALT$", TAGCH[t]);
  else
    snprintf (buf, sizeof buf, "$%c%c$saltSALT$", TAGCH[(t - n1) / n1], TAGCH[(t - n1) % n1]);
  /* tags owned by a method (crypt.5): $y$ $gy$ $7$ $2a$ $2b$ $2x$ $2y$ $6$ $5$ $1$ $3$ (and $sha1 / $md5 are longer) */
  static const char *const owned[] = { "$y$", "$gy$", "$7$", "$2a$", "$2b$", "$2x$", "$2y$", "$6$", "$5$", "$1$", "$3$", 0 };
  for (int i = 0; owned[i]; i++)
    if (!strncmp (buf, owned[i], strlen (owned[i])))
      return;
  snprintf (rp, sizeof rp, "u:%d", t);
  all_ways (M_MD5, "pw", buf, 1, "unknown-prefix", rp, t % 50 == 0);
}

/* crypt_rn size arguments: truncated tokens */
static void
slab_sizes (int m)
{
  static const int sizes[] = { INT_MIN, -1, 0, 1, 2, 3, 4, 383, 384, (int) sizeof (struct crypt_data) - 1 };
  char sig[160];
  for (unsigned i = 0; i < sizeof sizes / sizeof *sizes; i++)
    for (int st = 0; st < NSTATES; st++)
      for (int tok = 0; tok < 2; tok++)
        {
          int size = sizes[i];
          const char *setting = tok ? "*0" : vh_cheap[m][0];
          prepare (0, st, m);
          char before[8];
          memcpy (before, D->output, 8);
          errno = 0;
          char *r = crypt_rn ("pw", setting, D, size);
          int e = errno;
          vh_stat ("evaluations", 1);
          snprintf (cj, sizeof cj, "{\"entry\":\"crypt_rn\",\"size\":%d,\"prior_state\":\"%s\",\"setting\":%s,\"replay\":\"z:%d\"", size, stname[st],
                    vh_jstr (setting), m);
          const char *want = size >= 3 ? (tok ? "*1" : "*0") : size == 2 ? "*" : size == 1 ? "" : 0;
          int bad = r != 0 || e != ERANGE;
          if (want && memcmp (D->output, want, strlen (want) + 1))
            bad = 1;
          if (!want && memcmp (before, D->output, 8))
            bad = 1;            /* size <= 0: nothing may be written */
          if (bad)
            {
              snprintf (sig, sizeof sig, "small-size/size=%d", size);
              vh_viol (sig, "%s,\"returned\":%s,\"errno\":%d,\"output\":\"%s\"}", cj, vh_jstr (r), e, vh_js (D->output, 4));
            }
          else
            vh_stat ("failures", 1);
        }
}

/* ------------------------------------------------------------------------------
   Histories: BFS to closure.  Objects A and B; operations = entry point x request x object.
   State = (output string of A, output string of B, whether A/B scratch is clean), i.e. all
   the calls can observe of the past.  Invariant on every transition: the fail-closed rules
   and "a failed call never returns or leaves an earlier hash".  */
struct hop { int ep; int req; int obj; };
static const char *const hreq_set[] = { 0 /* success m0 */ , 0 /* success m1 */ , "$1$sa:lt", "$unknown$x", 0 /* too long */ , "*0", 0 /* NULL setting */ , "$6$rounds=1$x" };
#define NREQ 8
static struct crypt_data *HO[2];
static char h_expect[2][CRYPT_OUTPUT_SIZE];
static char h_long[600];

static uint64_t
h_state (void)
{
  uint64_t h = 1469598103934665603ULL;
  for (int o = 0; o < 2; o++)
    {
      h = vh_hash (HO[o]->output, sizeof HO[o]->output, h);
      h = vh_hash (HO[o]->internal, sizeof HO[o]->internal, h);
      h = vh_hash (HO[o]->reserved, sizeof HO[o]->reserved, h);
      h = vh_hash (&HO[o]->initialized, 1, h);
    }
  return h;
}

static int
h_apply (const struct hop *op, int check, const char *trace)
{
  struct crypt_data *d = HO[op->obj];
  const char *phrase = op->req == 4 ? h_long : "pw";
  const char *setting = op->req == 0 ? vh_cheap[M_MD5][0] : op->req == 1 ? vh_cheap[M_DES][0] : op->req == 4 ? vh_cheap[M_MD5][0] : hreq_set[op->req];
  char prior[CRYPT_OUTPUT_SIZE];
  memcpy (prior, d->output, sizeof prior);
  char *r;
  void *dp = d;
  int dsz = sizeof *d;
  errno = 0;
  switch (op->ep)
    {
    case 0: r = crypt_rn (phrase, setting, d, sizeof *d); break;
    case 1: r = crypt_r (phrase, setting, d); break;
    default: r = crypt_ra (phrase, setting, &dp, &dsz); break;
    }
  int e = errno;
  vh_stat ("evaluations", 1);
  if (!check)
    return 0;
  char sig[200], why[80];
  int must_fail = op->req >= 2;
  int failed = op->ep == 1 ? (r == 0 || r[0] == '*') : r == 0;
  snprintf (cj, sizeof cj, "{\"history\":\"%s\",\"last\":{\"entry\":\"%s\",\"request\":%d,\"object\":%d},\"replay\":\"h:%s\"", trace, epname[op->ep],
            op->req, op->obj, trace);
  if (must_fail != failed)
    {
      snprintf (sig, sizeof sig, "history/%s/request=%d", must_fail ? "invalid-input-hashed" : "valid-input-failed", op->req);
      vh_viol (sig, "%s,\"result\":%s}", cj, vh_jstr (r));
      return 1;
    }
  if (failed)
    {
      if ((e != EINVAL && e != ERANGE) || !token_ok (d->output, setting, why, sizeof why) || (prior[0] != '*' && prior[0] && !strcmp (d->output, prior)))
        {
          snprintf (sig, sizeof sig, "history/bad-failure-output/request=%d", op->req);
          vh_viol (sig, "%s,\"errno\":%d,\"output\":\"%s\"}", cj, e, vh_js (d->output, strnlen (d->output, 40)));
          return 1;
        }
    }
  else if (strcmp (r, h_expect[op->req]))
    {
      snprintf (sig, sizeof sig, "history/success-differs-from-solo/request=%d", op->req);
      vh_viol (sig, "%s,\"result\":%s,\"solo\":%s}", cj, vh_jstr (r), vh_jstr (h_expect[op->req]));
      return 1;
    }
  return 0;
}

static void
histories (void)
{
  enum { MAXS = 4096, MAXD = 12 };
  static struct { uint64_t h; int parent; struct hop op; int depth; } st[MAXS];
  int ns = 0;
  HO[0] = calloc (1, sizeof *HO[0]);
  HO[1] = calloc (1, sizeof *HO[1]);
  vh_fill (h_long, 550, 'A');
  strcpy (h_expect[0], crypt_rn ("pw", vh_cheap[M_MD5][0], HO[0], sizeof *HO[0]));
  strcpy (h_expect[1], crypt_rn ("pw", vh_cheap[M_DES][0], HO[0], sizeof *HO[0]));
  memset (HO[0], 0, sizeof *HO[0]);
  st[ns].h = h_state ();
  st[ns].parent = -1;
  st[ns].depth = 0;
  ns++;
  long transitions = 0;
  int maxdepth = 0, closed = 1;
  for (int cur = 0; cur < ns; cur++)
    {
      /* path to cur */
      struct hop path[MAXD + 1];
      int pl = 0;
      for (int x = cur; st[x].parent >= 0; x = st[x].parent)
        path[pl++] = st[x].op;
      if (st[cur].depth >= MAXD)
        {
          closed = 0;
          continue;
        }
      for (int ep = 0; ep < 3; ep++)
        for (int req = 0; req < NREQ; req++)
          for (int obj = 0; obj < 2; obj++)
            {
              /* re-materialise the state by replaying its shortest history on fresh objects */
              memset (HO[0], 0, sizeof *HO[0]);
              memset (HO[1], 0, sizeof *HO[1]);
              char trace[200] = "";
              for (int i = pl - 1; i >= 0; i--)
                {
                  h_apply (&path[i], 0, "");
                  snprintf (trace + strlen (trace), sizeof trace - strlen (trace), "%d%d%d.", path[i].ep, path[i].req, path[i].obj);
                }
              if (h_state () != st[cur].h)
                vh_internal ("history replay diverged (state %d)", cur);
              struct hop op = { ep, req, obj };
              snprintf (trace + strlen (trace), sizeof trace - strlen (trace), "%d%d%d", ep, req, obj);
              transitions++;
              if (h_apply (&op, 1, trace))
                continue;
              uint64_t h = h_state ();
              int known = 0;
              for (int i = 0; i < ns; i++)
                if (st[i].h == h)
                  {
                    known = 1;
                    break;
                  }
              if (!known && ns < MAXS)
                {
                  st[ns].h = h;
                  st[ns].parent = cur;
                  st[ns].op = op;
                  st[ns].depth = st[cur].depth + 1;
                  if (st[ns].depth > maxdepth)
                    maxdepth = st[ns].depth;
                  ns++;
                }
            }
    }
  vh_stat ("history_states", ns);
  vh_stat ("history_transitions", transitions);
  vh_statmax ("max_history_depth", maxdepth);
  vh_stat ("history_closure", closed && ns < MAXS);
  vh_sample ("{\"slab\":\"histories\",\"states\":%d,\"transitions\":%ld,\"depth\":%d,\"closure\":%s,\"alphabet\":\"3 entry points x 8 requests x 2 objects\"}", ns,
             transitions, maxdepth, closed && ns < MAXS ? "true" : "false");
}

int
main (int argc, char **argv)
{
  vh_init (argc, argv);
  vh_mmap_cap = (size_t) 64 << 20;
  D = calloc (1, sizeof *D);
  Dtok = calloc (1, sizeof *Dtok);
  for (int m = 0; m < M_COUNT; m++)
    {
      char *h = crypt_rn ("previous-user-secret", vh_cheap[m][0], D, sizeof *D);
      if (!h)
        vh_internal ("setup: %s does not hash", vh_cheap[m][0]);
      strcpy (prev_success[m], h);
      img_success[m] = malloc (sizeof *D);
      memcpy (img_success[m], D, sizeof *D);
    }
  (void) crypt_rn ("previous-user-secret", "$unknown$", D, sizeof *D);
  img_failure = malloc (sizeof *D);
  memcpy (img_failure, D, sizeof *D);
  if (vh_replay && *vh_replay)
    {
      int a, b, c, e;
      if (sscanf (vh_replay, "b:%d:%d:%d:%d", &a, &b, &c, &e) == 4)
        slab_bytes (a, b, c, 1);
      else if (sscanf (vh_replay, "f:%d", &a) == 1)
        slab_fixed (a);
      else if (sscanf (vh_replay, "u:%d", &a) == 1)
        slab_unknown (a);
      else if (sscanf (vh_replay, "t:%d:%d", &a, &b) == 2)
        slab_longtail (a, b);
      else if (sscanf (vh_replay, "l:%d:%d", &a, &b) == 2)
        slab_longsalt (a, b);
      else if (sscanf (vh_replay, "z:%d", &a) == 1)
        slab_sizes (a);
      else if (!strncmp (vh_replay, "h:", 2))
        histories ();
      else
        vh_internal ("bad replay token");
      vh_done ();
      return 0;
    }
  uint64_t idx = 0;
  for (int w = 0; w < NFIXED; w++)
    if (vh_mine (idx++))
      slab_fixed (w);
  for (int m = 0; m < M_COUNT; m++)
    if (vh_mine (idx++))
      slab_sizes (m);
  int ntags = (int) (strlen (TAGCH) + strlen (TAGCH) * strlen (TAGCH));
  for (int t = 0; t < ntags; t++)
    if (vh_mine (idx++))
      slab_unknown (t);
  if (vh_mine (idx++))
    histories ();
  for (int m = 0; m < M_COUNT; m++)
    for (int li = 0; li < 10; li++)
      if (vh_mine (idx++))
        slab_longtail (m, li);
  for (int which = 0; which < 10; which++)
    for (int L = 280; L <= 520; L += (L >= 300 && L <= 400) ? 1 : 8)
      if (vh_mine (idx++))
        slab_longsalt (which, L);
  for (int m = 0; m < M_COUNT && !vh_expired (); m++)
    for (int b = 0; b < 3; b++)
      {
        size_t n = strlen (base_of (m, b));
        for (int pos = 0; pos <= (int) n; pos++)
          if (vh_mine (idx++))
            {
              if (!vh_thorough && (m == M_SUNMD5 || b == 2) && pos > 14 && pos % 4)
                continue;
              slab_bytes (m, b, pos, vh_thorough);
              if (pos == 5)
                vh_sample ("{\"slab\":\"bytes\",\"base\":%s,\"position\":%d,\"byte_values\":\"1..255\",\"entry_points\":4,\"prior_states\":3}",
                           vh_jstr (base_of (m, b)), pos);
            }
      }
  vh_done ();
  return 0;
}
