/* Method table shared by the enumerators.  Written from doc/crypt.5 and
   lib/hashes.conf (names, tags, default entropy), not from the parsers. */
#ifndef VH_METHODS_H
#define VH_METHODS_H
#include <stddef.h>

enum
{
  M_YESCRYPT, M_GOST, M_SCRYPT, M_BCRYPT_B, M_BCRYPT_Y, M_BCRYPT_A, M_BCRYPT_X,
  M_SHA512, M_SHA256, M_SHA1, M_SUNMD5, M_MD5, M_NT, M_BSDI, M_BIG, M_DES, M_COUNT
};

struct vh_method
{
  const char *name;
  const char *tag;              /* gensalt prefix / method tag */
  int conf_nrbytes;             /* bytes drawn from the OS when rbytes == NULL */
  int strong;                   /* classification per the property text (C18) */
  const char *hash_alpha;       /* alphabet of the hash portion */
  int hash_len;                 /* digest characters (0: variable, bigcrypt) */
  int phrase_window;            /* significant phrase bytes (0: all up to 511) */
  int bit8_ignored;             /* 8th bit of phrase bytes not significant */
};

#define A64 "./0123456789ABCDEFGHIJKLMNOPQRSTUVWXYZabcdefghijklmnopqrstuvwxyz"
#define ABF "./ABCDEFGHIJKLMNOPQRSTUVWXYZabcdefghijklmnopqrstuvwxyz0123456789"
#define AHEX "0123456789abcdef"

static const struct vh_method vh_methods[M_COUNT] = {
  [M_YESCRYPT] = { "yescrypt", "$y$", 16, 1, A64, 43, 0, 0 },
  [M_GOST] = { "gost_yescrypt", "$gy$", 16, 1, A64, 43, 0, 0 },
  [M_SCRYPT] = { "scrypt", "$7$", 16, 1, A64, 43, 0, 0 },
  [M_BCRYPT_B] = { "bcrypt", "$2b$", 16, 1, ABF, 31, 72, 0 },
  [M_BCRYPT_Y] = { "bcrypt_y", "$2y$", 16, 1, ABF, 31, 72, 0 },
  [M_BCRYPT_A] = { "bcrypt_a", "$2a$", 16, 1, ABF, 31, 72, 0 },
  [M_BCRYPT_X] = { "bcrypt_x", "$2x$", 16, 0, ABF, 31, 72, 1 },
  [M_SHA512] = { "sha512crypt", "$6$", 15, 1, A64, 86, 0, 0 },
  [M_SHA256] = { "sha256crypt", "$5$", 15, 0, A64, 43, 0, 0 },
  [M_SHA1] = { "sha1crypt", "$sha1", 20, 0, A64, 28, 0, 0 },
  [M_SUNMD5] = { "sunmd5", "$md5", 8, 0, A64, 22, 0, 0 },
  [M_MD5] = { "md5crypt", "$1$", 9, 0, A64, 22, 0, 0 },
  [M_NT] = { "nt", "$3$", 1, 0, AHEX, 32, 0, 0 },
  [M_BSDI] = { "bsdicrypt", "_", 3, 0, A64, 11, 0, 1 },
  [M_BIG] = { "bigcrypt", "", 2, 0, A64, 0, 128, 1 },
  [M_DES] = { "descrypt", "", 2, 0, A64, 11, 8, 1 },
};

/* canonical inexpensive settings (two forms per method), from crypt.5's formats */
static const char *const vh_cheap[M_COUNT][2] = {
  [M_YESCRYPT] = { "$y$j75$saltSALTsalt", "$y$j/.$ABCDEFGH$" },
  [M_GOST] = { "$gy$j75$saltSALTsalt", "$gy$j/.$ABCDEFGH$" },
  [M_SCRYPT] = { "$7$4/..../....saltSALTsalt", "$7$2/..../....ABCDEFGH$" },
  [M_BCRYPT_B] = { "$2b$04$abcdefghijklmnopqrstuu", "$2b$04$ZYXWVUTSRQPONMLKJIHGFe" },
  [M_BCRYPT_Y] = { "$2y$04$abcdefghijklmnopqrstuu", "$2y$04$ZYXWVUTSRQPONMLKJIHGFe" },
  [M_BCRYPT_A] = { "$2a$04$abcdefghijklmnopqrstuu", "$2a$04$ZYXWVUTSRQPONMLKJIHGFe" },
  [M_BCRYPT_X] = { "$2x$04$abcdefghijklmnopqrstuu", "$2x$04$ZYXWVUTSRQPONMLKJIHGFe" },
  [M_SHA512] = { "$6$rounds=1000$saltSALTsaltSALT", "$6$ABCDEFGH$" },
  [M_SHA256] = { "$5$rounds=1000$saltSALTsaltSALT", "$5$ABCDEFGH$" },
  [M_SHA1] = { "$sha1$24$saltSALTsalt", "$sha1$1$ABCDEFGH$" },
  [M_SUNMD5] = { "$md5$saltSALT", "$md5,rounds=1$ABCDEFGH$" },
  [M_MD5] = { "$1$saltSALT", "$1$ABCDEFGH$" },
  [M_NT] = { "$3$", "$3$$" },
  [M_BSDI] = { "_/...salt", "_1...ABCD" },
  [M_BIG] = { "ab............", "Zz/./././././." },
  [M_DES] = { "ab", "Zz" },
};

/* position-distinct byte fill P (includes 8-bit values, never NUL) */
static inline unsigned char vh_fillP (size_t i) { return (unsigned char) (1 + (73 * i + 41) % 250); }
static inline void
vh_fill (char *dst, size_t n, int kind)
{
  for (size_t i = 0; i < n; i++)
    switch (kind)
      {
      case 'A': dst[i] = (char) ('a' + i % 26); break;
      case 'P': dst[i] = (char) vh_fillP (i); break;
      case 'H': dst[i] = (char) 0xff; break;
      case 'M': dst[i] = (char) (0x80 + i % 127); break;
      default: dst[i] = 'x';
      }
  dst[n] = 0;
}

/* boundary set of phrase lengths */
static const int vh_Lb[] = { 0, 1, 2, 7, 8, 9, 15, 16, 17, 31, 32, 33, 55, 56, 57, 63, 64, 65, 71, 72,
  73, 111, 112, 113, 119, 120, 127, 128, 129, 139, 140, 255, 256, 257, 510, 511 };
#define VH_NLB ((int) (sizeof vh_Lb / sizeof vh_Lb[0]))

#endif
