/* Per-method setting generators, written from doc/crypt.5 and the documented
   accept conditions (not from the parsers' code).  Each generator emits the full
   product of {prefix variant} x {cost spelling} x {salt shape} x {terminator shape}.
   Settings are not promised to be accepted: properties oblige only successes (C01,
   C06) or only failures (C05).  COST marks the compute class so enumerators can
   stay inside the budget:  0 = microseconds .. ~2 ms,  1 = up to ~10 ms,
   2 = must not be hashed (decoded cost above the compute budget).  */
#ifndef VH_GRAMMAR_H
#define VH_GRAMMAR_H
#include "vh_methods.h"
#include <stdio.h>
#include <stdlib.h>
#include <string.h>

#define VH_SETMAX 700
struct vh_setting
{
  char s[VH_SETMAX];
  int method;
  int cost;
  int salt_off, salt_len;       /* where the salt field lies (for reports) */
};

struct vh_setlist
{
  struct vh_setting *v;
  int n, cap;
};

static void
vh_sl_add (struct vh_setlist *L, int m, int cost, const char *s)
{
  if (strlen (s) >= VH_SETMAX)
    return;
  for (int i = 0; i < L->n; i++)
    if (L->v[i].method == m && !strcmp (L->v[i].s, s))
      return;
  if (L->n == L->cap)
    {
      L->cap = L->cap ? 2 * L->cap : 1024;
      L->v = realloc (L->v, (size_t) L->cap * sizeof *L->v);
      if (!L->v)
        abort ();
    }
  struct vh_setting *e = &L->v[L->n++];
  memset (e, 0, sizeof *e);
  strcpy (e->s, s);
  e->method = m;
  e->cost = cost;
}

/* position-distinct salt text over an alphabet */
static void
vh_salt (char *dst, int n, const char *alpha, int phase)
{
  int al = (int) strlen (alpha);
  for (int i = 0; i < n; i++)
    dst[i] = alpha[(i * 7 + 3 + phase * 11) % al];
  dst[n] = 0;
}

/* a plausible hash portion of the method's length and alphabet */
static void
vh_fakehash (char *dst, int m, int variant)
{
  int n = vh_methods[m].hash_len ? vh_methods[m].hash_len : 11;
  vh_salt (dst, n, vh_methods[m].hash_alpha, 5 + variant);
}

/* characters a md5/sha salt may contain besides the base-64 set (crypt.5: [^$:\n]) */
#define ODD_SALT "#%&'()+,-<=>?@[]^_`{|}~\""

static void
gen_md5_sha (struct vh_setlist *L, int m, int thorough)
{
  const char *tag = vh_methods[m].tag;
  int cap = m == M_MD5 ? 8 : 16;
  static const char *const costs_sha[] = { "", "rounds=1000$", "rounds=5000$", "rounds=1001$", "rounds=4999$", "rounds=9999$",
    "rounds=10000$", "rounds=999$", "rounds=01000$", "rounds=+1000$", "rounds=-1000$", "rounds=0$", "rounds=$",
    "rounds=1000", "rounds=1e3$", "rounds=99999999999999999999$", "rounds=1000000000$", "rounds=1000$$", "rounds=",
    "rounds=999999999$", "rounds=5000", "Rounds=1000$", "rounds=1000,x$", "rounds=4294968296$", "rounds=8589935592$",
    "rounds=4294967295$", "rounds=18446744073709552616$", 0
  };
  static const char *const costs_md5[] = { "", "rounds=1000$", 0 };
  const char *const *costs = m == M_MD5 ? costs_md5 : costs_sha;
  char fh[128], fh2[128], salt[64], buf[VH_SETMAX];
  vh_fakehash (fh, m, 0);
  vh_fakehash (fh2, m, 1);
  for (int ci = 0; costs[ci]; ci++)
    {
      int expensive = strstr (costs[ci], "999999999$") || strstr (costs[ci], "1000000000$") ? 2 : 0;
      if (m != M_MD5 && (ci == 0 || ci == 2 || ci == 4 || ci == 5 || ci == 6 || ci == 21))
        expensive = 1;            /* 4999..10000 rounds: milliseconds */
      for (int sl = 0; sl <= cap + 3; sl++)
        for (int alpha = 0; alpha < 2; alpha++)
          {
            if (alpha == 1 && (sl == 0 || (ci > 1 && !thorough)))
              continue;
            vh_salt (salt, sl, alpha ? ODD_SALT A64 : A64, sl);
            if (alpha && sl > 2)
              salt[1] = '=';      /* "x=..." looks like an option but is salt */
            for (int t = 0; t < 6; t++)
              {
                if (ci > 6 && t > 2 && !thorough)
                  continue;
                const char *term[] = { "", "$", "$$", 0, 0, 0 };
                char tb[300];
                if (t == 3)
                  snprintf (tb, sizeof tb, "$%s", fh);
                else if (t == 4)
                  snprintf (tb, sizeof tb, "$%s$junk", fh);
                else if (t == 5)
                  snprintf (tb, sizeof tb, "$%.5s", fh2);
                else
                  strcpy (tb, term[t]);
                snprintf (buf, sizeof buf, "%s%s%s%s", tag, costs[ci], salt, tb);
                vh_sl_add (L, m, expensive, buf);
              }
          }
    }
  /* the tag alone, the tag without its closing '$' is another method's business */
  vh_sl_add (L, m, 0, tag);
}

static void
gen_sha1 (struct vh_setlist *L, int thorough)
{
  static const char *const iters[] = { "1", "2", "3", "24", "100", "1000", "0", "", "+5", "007", " 5", "5x", "0x10",
    "4294967295", "-1", "99999999999999999999", 0
  };
  static const int sls[] = { 0, 1, 2, 3, 7, 8, 9, 15, 16, 17, 31, 32, 33, 62, 63, 64, 65, 66, 100, 200, 300, 326, 327, 328, 329, 340 };
  char fh[64], salt[400], buf[VH_SETMAX];
  vh_fakehash (fh, M_SHA1, 0);
  for (int ii = 0; iters[ii]; ii++)
    {
      int cost = ii >= 13 ? 2 : 0;      /* 2^32-1, wrapped negative and overflowed counts: never hashed */
      for (unsigned k = 0; k < sizeof sls / sizeof *sls; k++)
        {
          if (ii > 5 && k > 8 && !thorough)
            continue;
          vh_salt (salt, sls[k], A64, sls[k]);
          static const char *const term[] = { "", "$", "$$", "$%s", "$%s$junk", "%%", "$*" };
          for (int t = 0; t < 5; t++)
            {
              char tb[128];
              snprintf (tb, sizeof tb, term[t], fh);
              snprintf (buf, sizeof buf, "$sha1$%s$%s%s", iters[ii], salt, tb);
              vh_sl_add (L, M_SHA1, cost, buf);
            }
        }
    }
  vh_sl_add (L, M_SHA1, 0, "$sha1");
  vh_sl_add (L, M_SHA1, 0, "$sha1$");
  vh_sl_add (L, M_SHA1, 0, "$sha1$24");
  vh_sl_add (L, M_SHA1, 0, "$sha1$24$");
  vh_sl_add (L, M_SHA1, 0, "$sha1,24$salt");
  vh_sl_add (L, M_SHA1, 0, "$sha1x24$salt");
  vh_sl_add (L, M_SHA1, 0, "$sha1$24$sa=lt$");
}

static void
gen_sunmd5 (struct vh_setlist *L, int thorough)
{
  static const char *const opts[] = { "", "rounds=1$", "rounds=9$", "rounds=10$", "rounds=99$", "rounds=100$", "rounds=4294967295$",
    "rounds=0$", "rounds=01$", "rounds=4294967296$", "rounds=$", "rounds=1", "rounds=+1$", "rounds=-1$", "rounds=1,x$", 0
  };
  static const int sls[] = { 0, 1, 7, 8, 9, 16, 64, 300 };
  char fh[64], salt[400], buf[VH_SETMAX];
  vh_fakehash (fh, M_SUNMD5, 0);
  for (int sep = 0; sep < 2; sep++)
    for (int oi = 0; opts[oi]; oi++)
      for (unsigned k = 0; k < sizeof sls / sizeof *sls; k++)
        {
          if (!thorough && oi > 2 && k != 3 && k != 0)
            continue;
          vh_salt (salt, sls[k], A64, sls[k]);
          static const char *const term[] = { "", "$", "$$", "$%s", "$$%s", "$$$", "$x", "$$x$y" };
          for (int t = 0; t < 8; t++)
            {
              if (!thorough && oi > 1 && t > 4)
                continue;
              char tb[128];
              snprintf (tb, sizeof tb, term[t], fh);
              snprintf (buf, sizeof buf, "$md5%c%s%s%s", sep ? ',' : '$', opts[oi], salt, tb);
              vh_sl_add (L, M_SUNMD5, 1, buf);
            }
        }
  vh_sl_add (L, M_SUNMD5, 1, "$md5");
  vh_sl_add (L, M_SUNMD5, 1, "$md5x");
  vh_sl_add (L, M_SUNMD5, 1, "$md5$sa=lt$");
  vh_sl_add (L, M_SUNMD5, 1, "$md5,rounds=1,salt$");
}

static void
gen_nt (struct vh_setlist *L)
{
  char fh[64], buf[VH_SETMAX];
  vh_fakehash (fh, M_NT, 0);
  static const char *const f[] = { "$3$", "$3$$", "$3$$$", "$3$junk", "$3$$%s", "$3$$%s$x", "$3$%s", "$3$$%.10s", "$3", "$3$#", 0 };
  for (int i = 0; f[i]; i++)
    {
      snprintf (buf, sizeof buf, f[i], fh);
      vh_sl_add (L, M_NT, 0, buf);
    }
}

static void
gen_bsdi (struct vh_setlist *L)
{
  static const char *const cnt[] = { "/...", "0...", "1...", "N...", "J9..", "zz..", "....", "./..", "zzzz", "zzz/", "J9.", "J9.:", "J9.$", 0 };
  static const char *const salts[] = { "....", "salt", "zzzz", "/...", ".../", "Az09", "sal", "sal$", "sal=", 0 };
  char fh[64], buf[VH_SETMAX];
  vh_fakehash (fh, M_BSDI, 0);
  for (int c = 0; cnt[c]; c++)
    for (int s = 0; salts[s]; s++)
      {
        int cost = (c == 8 || c == 9) ? 2 : 0;     /* 2^24-ish iteration counts */
        static const char *const term[] = { "", "%s", "%s$junk", "%.5s", "x", "%sxx" };
        for (int t = 0; t < 6; t++)
          {
            char tb[128];
            snprintf (tb, sizeof tb, term[t], fh);
            snprintf (buf, sizeof buf, "_%s%s%s", cnt[c], salts[s], tb);
            vh_sl_add (L, M_BSDI, cost, buf);
          }
      }
  vh_sl_add (L, M_BSDI, 0, "_");
  vh_sl_add (L, M_BSDI, 0, "_J9..sal");
}

/* DES family: all salt pairs are a separate slab (C01 (c)); here a boundary set */
static void
gen_des (struct vh_setlist *L, int m)
{
  static const char *const salts[] = { "ab", "..", "zz", "Az", "/9", "a.", ".z", "a", "", "a$", "$a", "a_", "_a", "a=", "+a", 0 };
  static const int lens[] = { 0, 1, 2, 10, 11, 12, 21, 22, 23, 50, 176, 177, 200 };
  char tail[256], buf[VH_SETMAX];
  for (int s = 0; salts[s]; s++)
    for (unsigned k = 0; k < sizeof lens / sizeof *lens; k++)
      {
        vh_salt (tail, lens[k], A64, lens[k]);
        snprintf (buf, sizeof buf, "%s%s", salts[s], tail);
        vh_sl_add (L, m, 0, buf);
        if (lens[k] > 3)
          {
            tail[2] = '$';
            snprintf (buf, sizeof buf, "%s%s", salts[s], tail);
            vh_sl_add (L, m, 0, buf);
          }
      }
}

static void
gen_bcrypt (struct vh_setlist *L, int m)
{
  char sub = vh_methods[m].tag[2];
  static const char *const costs[] = { "04", "05", "06", "03", "00", "32", "4", "004", "+4", "0x", " 4", "99", "07", 0 };
  static const char *const salts[] = {
    "abcdefghijklmnopqrstuu", "......................", "9999999999999999999999", "abcdefghijklmnopqrstuv", "abcdefghijklmnopqrstu.",
    "abcdefghijklmnopqrstuO", "abcdefghijklmnopqrstu9", "ZYXWVUTSRQPONMLKJIHGFe", "abcdefghijklmnopqrstu", "abcdefghijklmnopqrst",
    "abcdefghij=lmnopqrstuu", "abcdefghijklmnopqrstu$", "abcdefghijklmnopqrstu_", "", "a", 0
  };
  char fh[64], buf[VH_SETMAX];
  vh_fakehash (fh, m, 0);
  for (int c = 0; costs[c]; c++)
    for (int s = 0; salts[s]; s++)
      {
        int cost = c == 12 ? 1 : 0;
        if (c > 2 && s > 2 && s != 8)
          continue;
        static const char *const term[] = { "", "%s", "%s$junk", "%.10s", "$", "%sx" };
        for (int t = 0; t < 6; t++)
          {
            char tb[128];
            snprintf (tb, sizeof tb, term[t], fh);
            snprintf (buf, sizeof buf, "$2%c$%s$%s%s", sub, costs[c], salts[s], tb);
            vh_sl_add (L, m, cost, buf);
          }
      }
  snprintf (buf, sizeof buf, "$2%c$", sub);
  vh_sl_add (L, m, 0, buf);
  snprintf (buf, sizeof buf, "$2%c$04", sub);
  vh_sl_add (L, m, 0, buf);
  snprintf (buf, sizeof buf, "$2%c$04$", sub);
  vh_sl_add (L, m, 0, buf);
  snprintf (buf, sizeof buf, "$2%c,04$abcdefghijklmnopqrstuu", sub);
  vh_sl_add (L, m, 0, buf);
}

/* yescrypt / gost-yescrypt: "$y$" flavor N r [have [p] [t] [g] [NROM]] "$" salt ["$" hash] */
static void
gen_yescrypt (struct vh_setlist *L, int m, int thorough)
{
  const char *tag = vh_methods[m].tag;
  struct { const char *p; int cost; } params[] = {
    { "j75", 0 },               /* RW defaults, N=2^10, r=8 : 1 MiB */
    { "j/.", 0 },               /* N=2^2 r=1 */
    { "j0.", 0 }, { "j85", 0 }, { "j73", 0 }, { "j95", 1 },
    { "j75..", 0 },             /* have=1: p=2 */
    { "j75./", 0 },             /* p=3 */
    { "j75/.", 0 },             /* have=2: t=1 */
    { "j75//", 0 },             /* t=2 */
    { "j750./", 0 },            /* have=3: p=2,t=2 */
    { "j751.", 0 },             /* have=4: g=1 (rejected by the KDF) */
    { "j755.", 0 },             /* have=8: NROM (needs a ROM: rejected) */
    { ".75", 0 },               /* flavor 0: classic scrypt */
    { ".4/", 0 }, { ".4/..", 0 }, { "/75", 0 },   /* flavor 1: WORM */
    { "/4/", 0 }, { "075", 0 }, { "i75", 0 }, { "k75", 0 }, { "z75", 0 }, { "j.5", 0 }, { "j/5", 0 },
    { "jz5", 2 }, { "j7", 0 }, { "j", 0 }, { "", 0 }, { "j7z", 2 }, { "j75.", 0 }, { "j75=", 0 },
    { "jA5", 1 }, { "jD5", 2 }, { "jW5", 2 },
  };
  static const int sls[] = { 0, 1, 2, 3, 4, 5, 6, 7, 8, 11, 12, 16, 22, 43, 44, 84, 85, 86, 87, 88, 100 };
  char fh[64], salt[200], buf[VH_SETMAX];
  vh_fakehash (fh, m, 0);
  for (unsigned pi = 0; pi < sizeof params / sizeof *params; pi++)
    for (unsigned k = 0; k < sizeof sls / sizeof *sls; k++)
      {
        if (pi > 1 && !thorough && !(k == 0 || k == 8 || k == 12 || k == 17 || k == 18))
          continue;
        vh_salt (salt, sls[k], A64, sls[k]);
        /* keep the unused high bits of a partial final group zero so the salt is decodable */
        if (sls[k] % 4 == 2)
          salt[sls[k] - 1] = A64[(strchr (A64, salt[sls[k] - 1]) - A64) & 3];
        if (sls[k] % 4 == 3)
          salt[sls[k] - 1] = A64[(strchr (A64, salt[sls[k] - 1]) - A64) & 15];
        static const char *const term[] = { "", "$", "$%s", "$%s$junk", "$$", "$%.7s", "=" };
        for (int t = 0; t < 7; t++)
          {
            if (pi > 12 && t > 3 && !thorough)
              continue;
            char tb[128];
            snprintf (tb, sizeof tb, term[t], fh);
            snprintf (buf, sizeof buf, "%s%s$%s%s", tag, params[pi].p, salt, tb);
            vh_sl_add (L, m, params[pi].cost, buf);
          }
      }
  /* (N, p) grid around the KDF's own N/p limit: N = 2^1..2^8, r = 1, p from the explicit field (have = 1).  quick: the band
     N/4-1 .. N/3+1 where acceptance flips; thorough: every p in 2..49 (one-character encoding) */
  for (int nl = 1; nl <= 8; nl++)
    for (int pp = 2; pp <= 49; pp++)
      {
        int N = 1 << nl;
        if (!thorough && !(pp >= N / 4 - 1 && pp <= N / 3 + 1))
          continue;
        snprintf (buf, sizeof buf, "%sj%c..%c$saltSALT", tag, A64[nl - 1], A64[pp - 2]);
        vh_sl_add (L, m, 0, buf);
      }
  vh_sl_add (L, m, 0, tag);
  snprintf (buf, sizeof buf, "%sj75", tag);
  vh_sl_add (L, m, 0, buf);
  /* non-canonical partial group (high bits set) */
  snprintf (buf, sizeof buf, "%sj75$zz", tag);
  vh_sl_add (L, m, 0, buf);
  snprintf (buf, sizeof buf, "%sj75$sa=lt", tag);
  vh_sl_add (L, m, 0, buf);
}

/* yescrypt's variable-length number encoding (1 character for the first 48 values above MIN, then 2, 3, ... characters),
   written from the format description: returns the number of characters, 0 when the value cannot be encoded */
static inline int
vh_yenc (char *dst, uint32_t v, uint32_t min)
{
  uint32_t start = 0, end = 47, chars = 1, bits = 0;
  int n = 0;
  if (v < min)
    return 0;
  v -= min;
  for (;;)
    {
      uint32_t count = (end + 1 - start) << bits;
      if (v < count)
        break;
      if (start >= 63)
        return 0;
      start = end + 1;
      end = start + (62 - end) / 2;
      v -= count;
      chars++;
      bits += 6;
    }
  dst[n++] = A64[start + (v >> bits)];
  while (--chars)
    {
      bits -= 6;
      dst[n++] = A64[(v >> bits) & 0x3f];
    }
  dst[n] = 0;
  return n;
}

/* "$y$" / "$gy$" setting with explicit N (log2), r, p, t: flavour j (RW); p and t are written only when not 1 / 0 */
static inline void
vh_ysetting (char *dst, size_t dl, const char *tag, int nlog2, uint32_t r, uint32_t pp, uint32_t t, const char *salt)
{
  char rb[8], pb[8] = "", tb[8] = "", mb[8] = "";
  uint32_t have = (pp != 1 ? 1u : 0u) | (t != 0 ? 2u : 0u);
  vh_yenc (rb, r, 1);
  if (have)
    vh_yenc (mb, have, 1);
  if (pp != 1)
    vh_yenc (pb, pp, 2);
  if (t != 0)
    vh_yenc (tb, t, 1);
  snprintf (dst, dl, "%sj%c%s%s%s%s$%s", tag, A64[nlog2 - 1], rb, mb, pb, tb, salt);
}

/* scrypt: "$7$" N(1) r(5) p(5) salt ["$" hash] */
static void
gen_scrypt (struct vh_setlist *L, int thorough)
{
  struct { const char *p; int cost; } params[] = {
    { "4/..../....", 0 }, { "2/..../....", 0 }, { "60..../....", 0 }, { "46..../....", 0 }, { "4/....0....", 0 },
    { "4/....1....", 0 }, { "/6..../....", 0 }, { "./..../....", 0 }, { "4...../....", 0 }, { "4/.........", 0 },
    { "C6..../....", 1 }, { "z/..../....", 2 }, { "4zzzzz/....", 2 }, { "4/....zzzzz", 2 }, { "4/..../...", 0 }, { "4/...", 0 },
    { "4", 0 }, { "", 0 }, { "4/...=/....", 0 }, { "4/..$./....", 0 }, { "H/..../....", 2 },
  };
  static const int sls[] = { 0, 1, 2, 3, 4, 8, 16, 22, 43, 86, 100, 200, 300, 323, 324, 325, 326, 330, 400 };
  char fh[64], salt[500], buf[VH_SETMAX];
  vh_fakehash (fh, M_SCRYPT, 0);
  for (unsigned pi = 0; pi < sizeof params / sizeof *params; pi++)
    for (unsigned k = 0; k < sizeof sls / sizeof *sls; k++)
      {
        if (pi > 1 && !thorough && !(k == 0 || k == 5 || k == 6))
          continue;
        vh_salt (salt, sls[k], A64, sls[k]);
        static const char *const term[] = { "", "$", "$%s", "$%s$junk", "$$", "$%.7s", "=", "$=" };
        for (int t = 0; t < 8; t++)
          {
            char tb[128];
            snprintf (tb, sizeof tb, term[t], fh);
            snprintf (buf, sizeof buf, "$7$%s%s%s", params[pi].p, salt, tb);
            vh_sl_add (L, M_SCRYPT, params[pi].cost, buf);
          }
        if (sls[k] >= 4 && sls[k] <= 100)
          {
            /* '$' inside the salt is legal for $7$ */
            salt[sls[k] / 2] = '$';
            snprintf (buf, sizeof buf, "$7$%s%s", params[pi].p, salt);
            vh_sl_add (L, M_SCRYPT, params[pi].cost, buf);
            snprintf (buf, sizeof buf, "$7$%s%s$%s", params[pi].p, salt, fh);
            vh_sl_add (L, M_SCRYPT, params[pi].cost, buf);
          }
      }
  vh_sl_add (L, M_SCRYPT, 0, "$7$");
}

static void
vh_gen_method (struct vh_setlist *L, int m, int thorough)
{
  switch (m)
    {
    case M_YESCRYPT:
    case M_GOST:
      gen_yescrypt (L, m, thorough);
      break;
    case M_SCRYPT:
      gen_scrypt (L, thorough);
      break;
    case M_BCRYPT_A:
    case M_BCRYPT_B:
    case M_BCRYPT_X:
    case M_BCRYPT_Y:
      gen_bcrypt (L, m);
      break;
    case M_SHA512:
    case M_SHA256:
    case M_MD5:
      gen_md5_sha (L, m, thorough);
      break;
    case M_SHA1:
      gen_sha1 (L, thorough);
      break;
    case M_SUNMD5:
      gen_sunmd5 (L, thorough);
      break;
    case M_NT:
      gen_nt (L);
      break;
    case M_BSDI:
      gen_bsdi (L);
      break;
    case M_BIG:
    case M_DES:
      gen_des (L, m);
      break;
    }
  vh_sl_add (L, m, 0, vh_cheap[m][0]);
  vh_sl_add (L, m, 0, vh_cheap[m][1]);
}

static void
vh_gen_all (struct vh_setlist *L, int thorough)
{
  for (int m = 0; m < M_COUNT; m++)
    vh_gen_method (L, m, thorough);
}

/* ---- independent model of the generic setting filter (crypt.5) -------- */
static inline int
vh_badsalt_model (const char *s)
{
  for (; *s; s++)
    if ((unsigned char) *s <= 0x20 || (unsigned char) *s >= 0x7f || strchr (":;*!\\", *s))
      return 1;
  return 0;
}

#endif
