/* C13: crypt_gensalt_rn honours output_size and never aborts.
   Complete grid: output_size -2..256 x prefixes x count classes x nrbytes 0..70. */
#include "vh_rt.h"
#include "vh_methods.h"
#include <crypt.h>
#include <limits.h>
#include <stdlib.h>

static const char *const prefixes[] = {
  "$y$", "$gy$", "$7$", "$2b$", "$2y$", "$2a$", "$2x$", "$6$", "$5$", "$sha1", "$md5", "$1$", "$3$", "_", "",
  "ab", 0 /* NULL */, "$9$", "$6$rounds=1000$abcdefgh$", "$2b$05$......................"
};
#define NPREF ((int) (sizeof prefixes / sizeof *prefixes))
static const unsigned long counts[] = {
  0, 1, 3, 4, 5, 6, 9, 10, 11, 12, 31, 32, 99, 100, 999, 1000, 1001, 5000, 9999, 10000, 65536, 999999,
  1000000, 99999999, 100000000, 999999999, 1000000000, 4294967295UL, ULONG_MAX,
  /* just above 2^32 and other values whose low 32 bits are tiny: what a narrowing conversion turns into 0..3 */
  4294967296UL, 4294967297UL, 4294967299UL, 4294967300UL, 1UL << 40, (1UL << 48) + 2, (1UL << 63) + 3
};
#define NCNT ((int) (sizeof counts / sizeof *counts))
#define NRB_MAX 70
#define SZ_LO (-2)
#define SZ_HI 256

#define ARENA 640
#define OFF 128
static unsigned char arena[ARENA], pristine[ARENA];
static unsigned char rbytes[NRB_MAX + 1];

struct res { int ok; int err; int fatal; char s[SZ_HI + 1]; };
static char cj[700];
static void
mkcase (int pi, int ci, int nrb, int size)
{
  snprintf (cj, sizeof cj, "{\"prefix\":%s,\"count\":%lu,\"nrbytes\":%d,\"output_size\":%d,\"replay\":\"%d:%d:%d:%d\"",
            vh_jstr (prefixes[pi]), counts[ci], nrb, size, pi, ci, nrb, size);
}

static const char *
pname (int pi)
{
  return prefixes[pi] ? prefixes[pi] : "(null)";
}

static int
passwd_safe (const char *s)
{
  for (; *s; s++)
    if ((unsigned char) *s <= 0x20 || (unsigned char) *s >= 0x7f || strchr (":;*!\\", *s))
      return 0;
  return 1;
}

/* run one cell; all per-cell oracles that do not need the neighbours */
static void
cell (int pi, int ci, int nrb, int size, struct res *r)
{
  char sig[160];
  memcpy (arena, pristine, ARENA);
  char *out = (char *) arena + OFF;
  /* errno as an unrelated earlier call may have left it: a failure must replace it with ERANGE or EINVAL */
  int entry_errno = ((pi + ci + nrb + size) & 1) ? EPERM : 0;
  char *ret = 0;
  int k = VH_TRY (0);
  if (k == 0)
    {
      /* nrbytes -1 stands for rbytes == NULL: the library draws the bytes itself (entropy seam: the same bytes for every size) */
      vh_ent_counter = 7;
      errno = entry_errno;
      ret = crypt_gensalt_rn (prefixes[pi], counts[ci], nrb < 0 ? 0 : (const char *) rbytes, nrb < 0 ? 0 : nrb, out, size);
      VH_END ();
    }
  int e = errno;
  r->fatal = k;
  r->ok = 0;
  r->err = e;
  r->s[0] = 0;
  vh_stat ("evaluations", 1);
  mkcase (pi, ci, nrb, size);
  if (k)
    {
      /* class of the failure: where it died and for which generator family */
      snprintf (sig, sizeof sig, "fatal/%s/%.60s/prefix=%s", vh_fatal_name (k), vh_fatal_msg, pname (pi));
      vh_viol (sig, "%s,\"outcome\":\"%s\"}", cj, vh_js (vh_fatal_msg, strlen (vh_fatal_msg)));
      return;
    }
  /* writes outside [out, out+max(size,0)) */
  size_t lim = size > 0 ? (size_t) size : 0;
  for (size_t i = 0; i < ARENA; i++)
    if ((i < OFF || i >= OFF + lim) && arena[i] != pristine[i])
      {
        snprintf (sig, sizeof sig, "oob-write/prefix=%s", pname (pi));
        vh_viol (sig, "%s,\"offset_from_output\":%ld}", cj, (long) i - OFF);
        return;
      }
  if (ret)
    {
      if (ret != out)
        {
          vh_viol ("bad-return-pointer", "%s}", cj);
          return;
        }
      void *nul = size > 0 ? memchr (out, 0, (size_t) size) : 0;
      if (!nul)
        {
          snprintf (sig, sizeof sig, "no-nul/prefix=%s", pname (pi));
          vh_viol (sig, "%s}", cj);
          return;
        }
      r->ok = 1;
      strcpy (r->s, out);
      vh_stat ("successes", 1);
      if (!passwd_safe (out) || out[0] == 0 || crypt_checksalt (out) == CRYPT_SALT_INVALID)
        {
          snprintf (sig, sizeof sig, "invalid-setting/prefix=%s", pname (pi));
          vh_viol (sig, "%s,\"result\":%s}", cj, vh_jstr (out));
        }
      if (vh_distinct (vh_hash_str (out, (uint64_t) size)))
        vh_stat ("distinct_nontrivial", 1);
    }
  else
    {
      vh_stat ("failures", 1);
      if (e != ERANGE && e != EINVAL)
        {
          snprintf (sig, sizeof sig, "bad-errno/%d/prefix=%s", e, pname (pi));
          vh_viol (sig, "%s,\"errno\":%d}", cj, e);
        }
      const char *want = size >= 3 ? "*0" : size == 2 ? "*" : size == 1 ? "" : 0;
      if (want && (memcmp (out, want, strlen (want) + 1) != 0))
        {
          snprintf (sig, sizeof sig, "bad-failure-token/prefix=%s", pname (pi));
          vh_viol (sig, "%s,\"buffer\":\"%s\"}", cj, vh_js (out, (size_t) (size < 8 ? size : 8)));
        }
      if (vh_distinct (vh_hash (&e, sizeof e, (uint64_t) (pi * 1000003 + ci * 1009 + nrb * 263 + size + 7))))
        vh_stat ("distinct_failures", 1);
    }
}

/* length of the part of a generated setting that precedes the salt (tag and cost field), from crypt(5) */
static size_t
header_len (const char *s)
{
  size_t n = strlen (s);
  if (!strncmp (s, "$5$", 3) || !strncmp (s, "$6$", 3))
    {
      if (!strncmp (s + 3, "rounds=", 7))
        {
          const char *d = strchr (s + 10, '$');
          return d ? (size_t) (d - s) + 1 : n + 1;
        }
      return 3;
    }
  if (!strncmp (s, "$1$", 3) || !strncmp (s, "$3$", 3))
    return 3;
  if (!strncmp (s, "$7$", 3))
    return 14;
  if (!strncmp (s, "$2", 2))
    return 7;
  if (s[0] == '_')
    return 5;
  if (s[0] == '$')
    {
      /* $y$params$  $gy$params$  $sha1$N$  $md5$ / $md5,rounds=N$ */
      int want = !strncmp (s, "$md5", 4) ? 2 : 3;
      const char *q = s;
      for (int i = 0; i < want; i++)
        {
          q = strchr (q + (i ? 1 : 0), '$');
          if (!q)
            return n + 1;
        }
      return (size_t) (q - s) + 1;
    }
  return 0;
}

/* one (prefix,count,nrbytes) column: all sizes, plus the relational oracles */
static void
column (int pi, int ci, int nrb, int only_size)
{
  static struct res col[SZ_HI - SZ_LO + 1];
  struct res full;
  char sig[160];
  cell (pi, ci, nrb, CRYPT_GENSALT_OUTPUT_SIZE, &full);
  if (full.fatal)
    return;
  int any = 0, prev_ok = 0;
  for (int size = SZ_LO; size <= SZ_HI; size++)
    {
      if (only_size != INT_MIN && size != only_size)
        continue;
      struct res *r = &col[size - SZ_LO];
      cell (pi, ci, nrb, size, r);
      if (r->fatal)
        {
          prev_ok = 0;
          continue;
        }
      if (r->ok)
        {
          any = 1;
          size_t l = strlen (r->s);
          if (l >= (size_t) size)
            vh_viol ("length-not-below-size", "%s,\"result\":%s}", cj, vh_jstr (r->s));
          /* equal to, or a literal leading part of, the full-size result
             (an optional trailing '$' set aside) */
          if (!full.ok)
            {
              snprintf (sig, sizeof sig, "small-ok-but-192-fails/prefix=%s", pname (pi));
              if (nrb <= 64)
                vh_viol (sig, "%s,\"result\":%s}", cj, vh_jstr (r->s));
            }
          else
            {
              size_t lt = l;
              if (lt && r->s[lt - 1] == '$' && strcmp (r->s, full.s))
                lt--;
              if (strncmp (r->s, full.s, lt) != 0)
                {
                  snprintf (sig, sizeof sig, "not-prefix-of-full/prefix=%s", pname (pi));
                  vh_viol (sig, "%s,\"result\":%s,\"full\":%s}", cj, vh_jstr (r->s), vh_jstr (full.s));
                }
              /* a shorter result may only have a shorter salt: tag and cost field complete, at least one salt character */
              if (strcmp (r->s, full.s) && l <= header_len (full.s) && strncmp (full.s, "$3$", 3))
                {
                  snprintf (sig, sizeof sig, "truncated-before-the-salt/prefix=%s", pname (pi));
                  vh_viol (sig, "%s,\"result\":%s,\"full\":%s}", cj, vh_jstr (r->s), vh_jstr (full.s));
                }
              else if (strcmp (r->s, full.s) && counts[ci] <= 10000 && (!strncmp (r->s, "$1$", 3) || !strncmp (r->s, "$5$", 3) || !strncmp (r->s, "$6$", 3)))
                {
                  /* within the compute budget: the shorter setting must be accepted by crypt and kept as written */
                  static struct crypt_data cd;
                  char *h = crypt_rn ("pw", r->s, &cd, sizeof cd);
                  vh_stat ("short_results_hashed", 1);
                  size_t keep = l && r->s[l - 1] == '$' ? l - 1 : l;
                  if (!h || strncmp (h, r->s, keep))
                    {
                      snprintf (sig, sizeof sig, "short-result-not-accepted-by-crypt/prefix=%s", pname (pi));
                      vh_viol (sig, "%s,\"result\":%s,\"crypt\":%s}", cj, vh_jstr (r->s), vh_jstr (h));
                    }
                }
              if (size >= CRYPT_GENSALT_OUTPUT_SIZE && strcmp (r->s, full.s))
                {
                  snprintf (sig, sizeof sig, "documented-size-differs/prefix=%s", pname (pi));
                  vh_viol (sig, "%s,\"result\":%s,\"full\":%s}", cj, vh_jstr (r->s), vh_jstr (full.s));
                }
            }
        }
      else if (prev_ok && only_size == INT_MIN)
        {
          snprintf (sig, sizeof sig, "not-monotone/prefix=%s", pname (pi));
          vh_viol (sig, "%s}", cj);
        }
      prev_ok = r->ok;
    }
  if (any && !full.ok && nrb <= 64)
    vh_stat ("any_but_not_full", 1);
  vh_stat ("columns", 1);
}

int
main (int argc, char **argv)
{
  vh_init (argc, argv);
  for (int i = 0; i < ARENA; i++)
    pristine[i] = (unsigned char) (0xA5 ^ (i * 7));
  /* the output area itself starts from a pattern that contains no '*' or NUL */
  for (int i = 0; i <= NRB_MAX; i++)
    rbytes[i] = vh_fillP ((size_t) i);
  if (vh_replay && *vh_replay)
    {
      int pi, ci, nrb, size;
      if (sscanf (vh_replay, "%d:%d:%d:%d", &pi, &ci, &nrb, &size) != 4)
        vh_internal ("bad replay token");
      column (pi, ci, nrb, size);
      vh_done ();
      return 0;
    }
  uint64_t idx = 0;
  for (int pi = 0; pi < NPREF; pi++)
    for (int ci = 0; ci < NCNT; ci++)
      for (int nrb = -1; nrb <= NRB_MAX; nrb++, idx++)
        if (vh_mine (idx))
          {
            column (pi, ci, nrb, INT_MIN);
            if ((idx & 1023) == vh_shard)
              vh_sample ("{\"prefix\":%s,\"count\":%lu,\"nrbytes\":%d,\"output_size\":\"-2..256\"}",
                         vh_jstr (prefixes[pi]), counts[ci], nrb);
          }
  vh_done ();
  return 0;
}
