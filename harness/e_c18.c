/* C18: crypt_checksalt / crypt_preferred_method agree with crypt and crypt_gensalt. */
#include "vh_rt.h"
#include "vh_methods.h"
#include "vh_grammar.h"
#include <limits.h>
#include <crypt.h>
#include <stdlib.h>

/* independent classifier from crypt.5 / crypt_checksalt.3 and the property text */
enum { K_INVALID = -1, K_OK = 0, K_LEGACY = 1 };

static int
is_des_char (unsigned char c)
{
  return c && strchr (A64, (char) c) != 0;
}

static int
classify (const char *s)
{
  if (!s || !*s)
    return K_INVALID;
  if (vh_badsalt_model (s))
    return K_INVALID;
  static const struct { const char *tag; int strong; } tags[] = {
    { "$y$", 1 }, { "$gy$", 1 }, { "$7$", 1 }, { "$2b$", 1 }, { "$2y$", 1 }, { "$2a$", 1 }, { "$2x$", 0 }, { "$6$", 1 }, { "$5$", 0 },
    { "$sha1", 0 }, { "$md5", 0 }, { "$1$", 0 }, { "$3$", 0 }, { "_", 0 },
  };
  for (unsigned i = 0; i < sizeof tags / sizeof *tags; i++)
    if (!strncmp (s, tags[i].tag, strlen (tags[i].tag)))
      return tags[i].strong ? K_OK : K_LEGACY;
  if (is_des_char ((unsigned char) s[0]) && is_des_char ((unsigned char) s[1]))
    return K_LEGACY;
  return K_INVALID;
}

static int
lib_class (const char *s)
{
  int r = crypt_checksalt (s);
  vh_stat ("evaluations", 1);
  if (r == CRYPT_SALT_OK)
    return K_OK;
  if (r == CRYPT_SALT_INVALID)
    return K_INVALID;
  if (r == CRYPT_SALT_METHOD_LEGACY)
    return K_LEGACY;
  return 99 + r;                /* CRYPT_SALT_METHOD_DISABLED / TOO_CHEAP are never returned by this version */
}

static struct crypt_data *D;
static char tails[3][420];

static void
report (const char *kind, const char *s, int want, int got, const char *replay)
{
  char sig[160];
  char tagpart[8];
  snprintf (tagpart, sizeof tagpart, "%.5s", s ? s : "(null)");
  snprintf (sig, sizeof sig, "%s/expected=%d/got=%d", kind, want, got);
  vh_viol (sig, "{\"setting\":%s,\"setting_len\":%zu,\"expected_class\":%d,\"checksalt\":%d,\"replay\":\"%s\"}", vh_jstr (s), s ? strlen (s) : 0, want, got, replay);
}

/* one short string: classification, crypt implication, tail independence */
static void
one (const char *s, int run_crypt, const char *replay)
{
  int want = classify (s), got = lib_class (s);
  if (want != got)
    {
      report ("classification", s, want, got, replay);
      return;
    }
  if (want != K_INVALID)
    {
      vh_stat ("recognised", 1);
      if (vh_distinct (vh_hash_str (s, 3)))
        vh_stat ("distinct_nontrivial", 1);
      /* depends only on the tag and the character set, not on the remainder */
      char buf[520];
      for (int t = 0; t < 3; t++)
        {
          snprintf (buf, sizeof buf, "%s%s", s, tails[t]);
          int g2 = lib_class (buf);
          if (g2 != want)
            {
              report ("remainder-changes-classification", buf, want, g2, replay);
              return;
            }
        }
    }
  if (run_crypt)
    {
      char *h = crypt_rn ("pw", s, D, sizeof *D);
      vh_stat ("evaluations", 1);
      vh_stat ("crypt_calls", 1);
      if (h && got == K_INVALID)
        report ("crypt-hashes-a-setting-checksalt-calls-invalid", s, want, got, replay);
    }
}

static void
by_first_byte (int b0)
{
  char s[8], rp[32];
  snprintf (rp, sizeof rp, "b:%d", b0);
  /* lengths 1..3, all byte values */
  s[0] = (char) b0;
  s[1] = 0;
  one (s, 1, rp);
  for (int b1 = 1; b1 < 256; b1++)
    {
      s[1] = (char) b1;
      s[2] = 0;
      one (s, 1, rp);
      for (int b2 = 1; b2 < 256; b2++)
        {
          s[2] = (char) b2;
          s[3] = 0;
          /* crypt is run on every string of length <= 3 whose first two bytes could select a method */
          one (s, 1, rp);
        }
    }
  /* length 4, printable */
  if (b0 > 0x20 && b0 < 0x7f)
    for (int b1 = 0x21; b1 < 0x7f; b1++)
      {
        s[1] = (char) b1;
        int shaped = b0 == '$' || b0 == '_' || (is_des_char ((unsigned char) b0) && is_des_char ((unsigned char) b1));
        for (int b2 = 0x21; b2 < 0x7f; b2++)
          {
            s[2] = (char) b2;
            for (int b3 = 0x21; b3 < 0x7f; b3++)
              {
                s[3] = (char) b3;
                s[4] = 0;
                int want = classify (s), got = lib_class (s);
                vh_stat ("length4", 1);
                if (want != got)
                  {
                    report ("classification", s, want, got, rp);
                    return;
                  }
                if (shaped && (b2 == '$' || b3 == '$' || (b2 % 16 == 1 && b3 % 16 == 2)))
                  one (s, 1, rp);
              }
          }
      }
}

/* '$' + tag + '$' for all tags of length <= 3 over the 65-character alphabet */
static void
tags_by_first (int c0)
{
  static const char al[] = A64 ",";
  char s[16], rp[32];
  snprintf (rp, sizeof rp, "t:%d", c0);
  snprintf (s, sizeof s, "$%c$", al[c0]);
  one (s, 1, rp);
  for (int c1 = 0; c1 < 65; c1++)
    {
      snprintf (s, sizeof s, "$%c%c$", al[c0], al[c1]);
      one (s, 1, rp);
      for (int c2 = 0; c2 < 65; c2++)
        {
          snprintf (s, sizeof s, "$%c%c%c$", al[c0], al[c1], al[c2]);
          one (s, 1, rp);
          snprintf (s, sizeof s, "$%c%c%c", al[c0], al[c1], al[c2]);
          one (s, 0, rp);
        }
    }
}

/* every generated setting of the grammar: crypt success => not INVALID; classification by tag */
static void
generated (struct vh_setlist *L, int si)
{
  char rp[32];
  snprintf (rp, sizeof rp, "g:%d", si);
  const char *s = L->v[si].s;
  int want = classify (s), got = lib_class (s);
  if (want != got)
    {
      report ("classification", s, want, got, rp);
      return;
    }
  if (L->v[si].cost >= 2)
    return;
  char *h = crypt_rn ("pw", s, D, sizeof *D);
  vh_stat ("evaluations", 1);
  vh_stat ("crypt_calls", 1);
  if (h)
    {
      vh_stat ("crypt_successes", 1);
      if (got == K_INVALID)
        report ("crypt-hashes-a-setting-checksalt-calls-invalid", s, want, got, rp);
      /* the result is a setting too */
      char H[CRYPT_OUTPUT_SIZE];
      strcpy (H, h);
      int g2 = lib_class (H);
      if (g2 == K_INVALID || g2 != classify (H))
        report ("classification-of-result", H, classify (H), g2, rp);
    }
}

static void
preferred (void)
{
  const char *p = crypt_preferred_method ();
  char sig[128];
  if (!p || crypt_checksalt (p) != CRYPT_SALT_OK)
    {
      vh_viol ("preferred-method-not-OK", "{\"preferred\":%s,\"checksalt\":%d,\"replay\":\"p\"}", vh_jstr (p), p ? crypt_checksalt (p) : -9);
      return;
    }
  if (strcmp (p, "$y$"))
    {
      /* crypt.5 / hashes.conf: the strongest default-capable method is yescrypt in the full build */
      vh_viol ("preferred-method-not-strongest", "{\"preferred\":%s,\"replay\":\"p\"}", vh_jstr (p));
    }
  for (int f = 0; f < 50; f++)
    {
      unsigned char rb[64];
      for (int i = 0; i < 64; i++)
        rb[i] = (unsigned char) (f * 37 + i * (f + 3) + (f == 1 ? 0xff : 0));
      /* every count 0..40 (accepted and refused by the preferred method alike), then decades and the type's limits; the
         entropy sizes include the refused ones (errno must agree too) */
      static const unsigned long bigc[] = { 99, 100, 1000, 5000, 65536, 4294967295UL, 4294967296UL, ULONG_MAX - 1, ULONG_MAX };
      for (int ck = 0; ck <= 40 + (int) (sizeof bigc / sizeof *bigc); ck++)
        {
          unsigned long cnt = ck <= 40 ? (unsigned long) ck : bigc[ck - 41];
          char a[CRYPT_GENSALT_OUTPUT_SIZE], b[CRYPT_GENSALT_OUTPUT_SIZE];
          static const int nrbs[] = { 16, 32, 64, 0, 8, 15, 17 };
          int nrb = nrbs[f % 7];
          errno = 0;
          char *ra = crypt_gensalt_rn (0, cnt, (const char *) rb, nrb, a, sizeof a);
          int ea = errno;
          errno = 0;
          char *rb2 = crypt_gensalt_rn (p, cnt, (const char *) rb, nrb, b, sizeof b);
          int eb = errno;
          vh_stat ("evaluations", 2);
          vh_stat ("null_prefix_cases", 1);
          if ((!ra) != (!rb2) || (ra && strcmp (a, b)) || (!ra && ea != eb))
            {
              snprintf (sig, sizeof sig, "null-prefix-differs-from-preferred");
              vh_viol (sig, "{\"count\":%lu,\"fill\":%d,\"null_prefix\":%s,\"preferred_prefix\":%s,\"replay\":\"p\"}", cnt, f, vh_jstr (ra ? a : 0), vh_jstr (rb2 ? b : 0));
              return;
            }
        }
    }
  /* NULL and "" are different requests */
  if (crypt_checksalt (0) != CRYPT_SALT_INVALID || crypt_checksalt ("") != CRYPT_SALT_INVALID)
    vh_viol ("null-or-empty-not-invalid", "{\"replay\":\"p\"}");
}

/* long settings: a valid setting of every method followed by a tail that reaches past the 384-byte fields, with each forbidden
   byte class at offsets around 384 and at the end: crypt and crypt_checksalt must agree (a setting crypt hashes is never INVALID) */
static void
long_settings (int m)
{
  static const int lens[] = { 385, 400, 600, 1000 };
  static const unsigned char bad[] = { 0, ':', '*', '!', ' ', 0x7f, 0x80, '\n' };      /* 0 = no forbidden byte */
  static char S[1100];
  char sig[128];
  const char *base = vh_cheap[m][0];
  size_t bl = strlen (base);
  for (unsigned li = 0; li < sizeof lens / sizeof *lens; li++)
    for (unsigned bi = 0; bi < sizeof bad; bi++)
      for (int pk = 0; pk < 4; pk++)
        {
          int L = lens[li], pos = pk == 0 ? 383 : pk == 1 ? 384 : pk == 2 ? 390 : L - 1;
          if (pos >= L || pos <= (int) bl)
            continue;
          memcpy (S, base, bl);
          S[bl] = '$';
          for (int i = (int) bl + 1; i < L; i++)
            S[i] = A64[(i * 3 + 2) % 64];
          S[L] = 0;
          if (bad[bi])
            S[pos] = (char) bad[bi];
          int cs = crypt_checksalt (S);
          char *h = crypt_rn ("pw", S, D, sizeof *D);
          vh_stat ("evaluations", 2);
          vh_stat ("long_setting_cases", 1);
          if (h && cs == CRYPT_SALT_INVALID)
            {
              snprintf (sig, sizeof sig, "hashed-setting-classified-invalid/long-setting/method=%s", vh_methods[m].name);
              vh_viol (sig, "{\"method\":\"%s\",\"setting_length\":%d,\"byte\":%d,\"offset\":%d,\"checksalt\":%d,\"replay\":\"L:%d\"}", vh_methods[m].name, L, bad[bi], pos, cs, m);
              return;
            }
          if (bad[bi] && cs != CRYPT_SALT_INVALID)
            {
              snprintf (sig, sizeof sig, "ill-charactered-long-setting-not-invalid/method=%s", vh_methods[m].name);
              vh_viol (sig, "{\"method\":\"%s\",\"setting_length\":%d,\"byte\":%d,\"offset\":%d,\"checksalt\":%d,\"replay\":\"L:%d\"}", vh_methods[m].name, L, bad[bi], pos, cs, m);
              return;
            }
        }
}

int
main (int argc, char **argv)
{
  vh_init (argc, argv);
  vh_mmap_cap = (size_t) 64 << 20;
  D = calloc (1, sizeof *D);
  strcpy (tails[0], "x");
  vh_salt (tails[1], 40, A64 "$,=", 1);
  vh_salt (tails[2], 400, A64 "$", 2);
  struct vh_setlist L = { 0 };
  vh_gen_all (&L, vh_thorough);
  if (vh_replay && *vh_replay)
    {
      int a;
      if (sscanf (vh_replay, "b:%d", &a) == 1)
        by_first_byte (a);
      else if (sscanf (vh_replay, "t:%d", &a) == 1)
        tags_by_first (a);
      else if (sscanf (vh_replay, "g:%d", &a) == 1)
        generated (&L, a);
      else if (sscanf (vh_replay, "L:%d", &a) == 1)
        long_settings (a);
      else
        preferred ();
      vh_done ();
      return 0;
    }
  uint64_t idx = 0;
  if (vh_mine (idx++))
    preferred ();
  for (int m = 0; m < M_COUNT; m++)
    if (vh_mine (idx++))
      long_settings (m);
  for (int c0 = 0; c0 < 65; c0++)
    if (vh_mine (idx++))
      tags_by_first (c0);
  for (int si = 0; si < L.n; si++)
    if (vh_mine (idx++))
      generated (&L, si);
  /* printable first bytes are ~1000x more work than the others: deal them round-robin separately */
  for (int b0 = 0x21; b0 < 0x7f && !vh_expired (); b0++)
    if (vh_mine (idx++))
      {
        by_first_byte (b0);
        if (b0 == '$' || b0 == 'a')
          vh_sample ("{\"first_byte\":%d,\"enumerated\":\"all byte strings of length <= 3 and all printable strings of length 4 starting with it\"}", b0);
      }
  for (int b0 = 1; b0 < 256; b0++)
    if ((b0 <= 0x20 || b0 >= 0x7f) && vh_mine (idx++))
      by_first_byte (b0);
  if (vh_thorough)
    {
      /* every printable string of length 5 that starts with '$' or '_' (where all the multi-character tags live) */
      for (int lead = 0; lead < 2; lead++)
        for (int b1 = 0x21; b1 < 0x7f && !vh_expired (); b1++)
          if (vh_mine (idx++))
            {
              char s5[8];
              s5[0] = lead ? '_' : '$';
              s5[1] = (char) b1;
              s5[5] = 0;
              for (int b2 = 0x21; b2 < 0x7f; b2++)
                for (int b3 = 0x21; b3 < 0x7f; b3++)
                  for (int b4 = 0x21; b4 < 0x7f; b4++)
                    {
                      s5[2] = (char) b2;
                      s5[3] = (char) b3;
                      s5[4] = (char) b4;
                      int want = classify (s5), got = lib_class (s5);
                      vh_stat ("length5", 1);
                      if (want != got)
                        {
                          report ("classification", s5, want, got, "len5");
                          b2 = b3 = 0x7f;
                          break;
                        }
                    }
            }
    }
  vh_done ();
  return 0;
}
