/* C14: crypt_ra / crypt_gensalt_ra keep the caller's allocation protocol sound.
   Explicit-state breadth-first search over call histories on a shared (*data,*size) pair,
   on the real functions under the allocator seam (ledger of live blocks, realloc always
   moves and scribbles the old block, wipe-before-grow observed at the realloc call).
   Each state is re-materialised by replaying its shortest history from its start state;
   every transition is checked against a small protocol model. */
#define _GNU_SOURCE
#include "vh_rt.h"
#include "vh_methods.h"
#include <crypt.h>
#include <limits.h>
#include <stdlib.h>

#define OBJ ((int) sizeof (struct crypt_data))

struct start { const char *name; int real; int recorded; int cap; };   /* real 0 = NULL pointer; cap > 0: the heap has room behind the block, realloc grows it in place */
static const struct start starts[] = {
  { "NULL,0", 0, 0 }, { "NULL,stale-40000", 0, 40000 }, { "NULL,negative", 0, -7 },
  { "exact", OBJ, OBJ }, { "larger-40000", 40000, 40000 }, { "larger-recorded-exact", 40000, OBJ },
  { "1-byte,true", 1, 1 }, { "1-byte,zero", 1, 0 }, { "1-byte,negative", 1, -1 },
  { "100-byte,true", 100, 100 }, { "100-byte,zero", 100, 0 }, { "100-byte,negative", 100, INT_MIN },
  { "sizeof-1,true", OBJ - 1, OBJ - 1 }, { "sizeof-1,zero", OBJ - 1, 0 }, { "sizeof-1,negative", OBJ - 1, -32768 },
  { "exact,recorded-zero", OBJ, 0 }, { "exact,recorded-negative", OBJ, -1 },
  { "1-byte,true,grows-in-place", 1, 1, OBJ + 8192 }, { "24-byte,true,grows-in-place", 24, 24, OBJ + 8192 }, { "100-byte,zero,grows-in-place", 100, 0, OBJ + 8192 },
  { "1000-byte,negative,grows-in-place", 1000, -1, OBJ + 8192 }, { "sizeof-1,true,grows-in-place", OBJ - 1, OBJ - 1, OBJ + 8192 }, { "sizeof-1,true,room-for-exactly-sizeof", OBJ - 1, OBJ - 1, OBJ },
};
#define NSTART ((int) (sizeof starts / sizeof *starts))

enum { OP_OK_MD5, OP_OK_DES, OP_OK_SHA256, OP_FAIL_BADCHAR, OP_TOOLONG, OP_NULLSETTING, OP_FREE_RESET, OP_GENSALT_OK, OP_GENSALT_FAIL, OP_FAIL_UNKNOWN, OP_OK_MD5_ALLOCFAIL, OP_GENSALT_ALLOCFAIL,
  OP_OK_MD5_ALLOCFAIL2, NOPS };
static const char *const opname[NOPS] = { "ra(md5)", "ra(des)", "ra(sha256)", "ra(bad-char)", "ra(600-byte phrase)", "ra(NULL setting)", "caller-free+reset",
  "gensalt_ra(ok)", "gensalt_ra(unknown prefix)", "ra(unknown prefix)", "ra(md5) while the allocator fails", "gensalt_ra(ok) with each of its allocator requests failing in turn",
  "ra(md5) with a second allocator request (if any) failing" };
static char expect[3][CRYPT_OUTPUT_SIZE];
static char longphrase[601];

/* the pair under test */
static void *data;
static int size;

/* wipe-before-grow observation */
static int grow_seen, grow_dirty;
static int recorded_at_call;
static const void *watch_ptr;  /* the caller's block as it was when the call started */
static int request_seen, request_dirty;
/* at the moment the library first asks the allocator for memory, an undersized block must already be erased */
static void
on_request (int kind, size_t n)
{
  (void) kind;
  (void) n;
  if (request_seen)
    return;
  request_seen = 1;
  struct vh_blk *b = watch_ptr ? vh_ledger_find (watch_ptr) : 0;
  if (b && recorded_at_call > 0 && recorded_at_call < OBJ)
    {
      size_t lim = (size_t) recorded_at_call < b->n ? (size_t) recorded_at_call : b->n;
      for (size_t i = 0; i < lim; i++)
        if (((const unsigned char *) watch_ptr)[i])
          request_dirty = 1;
    }
}

static void
on_release (const void *p, size_t n, int kind)
{
  if ((kind != 'r' && kind != 'f') || p != watch_ptr)
    return;
  grow_seen = 1;
  if (recorded_at_call > 0)
    {
      size_t lim = (size_t) recorded_at_call < n ? (size_t) recorded_at_call : n;
      for (size_t i = 0; i < lim; i++)
        if (((const unsigned char *) p)[i])
          {
            grow_dirty = 1;
            return;
          }
    }
}

static void
make_start (int si)
{
  vh_ledger_reset ();
  data = 0;
  if (starts[si].real)
    {
      vh_seam_armed = 1;
      data = starts[si].cap ? vh_inplace_alloc ((size_t) starts[si].real, (size_t) starts[si].cap) : malloc ((size_t) starts[si].real);
      vh_seam_armed = 0;
      memset (data, 0x6B, (size_t) starts[si].real);     /* previous user's residue */
    }
  size = starts[si].recorded;
}

static uint64_t
state_key (void)
{
  uint64_t h = 7;
  struct vh_blk *b = data ? vh_ledger_find (data) : 0;
  long real = data ? (b ? (long) b->n : -1) : 0;
  h = vh_hash (&real, sizeof real, h);
  h = vh_hash (&size, sizeof size, h);
  if (data && b)
    {
      /* contents that the next call can observe */
      h = vh_hash (data, b->n, h);
    }
  int live = vh_ledger_live (0);
  h = vh_hash (&live, sizeof live, h);
  return h;
}

static char cj[900];
static long transitions;
static char custom_name[96];
static void starts_custom_name (const char *n) { snprintf (custom_name, sizeof custom_name, "%s", n); }
#define START_NAME(si) ((si) >= 0 ? starts[si].name : custom_name)

/* apply one operation; check = evaluate the protocol model.  Returns 1 on violation. */
static int
apply (int op, int check, const char *trace, int si)
{
  char sig[200];
  void *before_ptr = data;
  int before_size = size;
  struct vh_blk *bb = data ? vh_ledger_find (data) : 0;
  long before_real = bb ? (long) bb->n : 0;
  int live_before = vh_ledger_live (0);
  long badfree_before = vh_bad_free;
  char *r = 0;
  if (check)
    snprintf (cj, sizeof cj, "{\"start\":\"%s\",\"history\":\"%s\",\"last\":\"%s\",\"replay\":\"%d:%s\"", START_NAME (si), trace, opname[op], si, trace);
  if (op == OP_FREE_RESET)
    {
      vh_seam_armed = 1;
      free (data);
      vh_seam_armed = 0;
      data = 0;
      size = 0;
      if (check && (vh_bad_free != badfree_before || vh_ledger_live (0) != 0))
        {
          vh_viol ("caller-free-leaves-blocks-or-double-free", "%s,\"live_blocks\":%d,\"bad_frees\":%ld}", cj, vh_ledger_live (0), vh_bad_free - badfree_before);
          return 1;
        }
      return 0;
    }
  if (op == OP_GENSALT_OK || op == OP_GENSALT_FAIL || op == OP_GENSALT_ALLOCFAIL)
    {
      int bad = 0;
      /* OP_GENSALT_ALLOCFAIL: fault position k = 1, 2, ... until a run makes fewer than k requests (that run has no fault) */
      for (long kpos = op == OP_GENSALT_ALLOCFAIL ? 1 : 0; kpos <= 8 && !bad; kpos++)
        {
          vh_req_count = 0;
          vh_fail_at[0] = kpos;
          vh_seam_armed = 1;
          errno = 0;
          char *g = crypt_gensalt_ra (op != OP_GENSALT_FAIL ? "$1$" : "$9$", 0, "0123456789abcdef", 16);
          vh_seam_armed = 0;
          vh_fail_at[0] = 0;
          vh_stat ("evaluations", 1);
          int faulted = kpos && vh_req_count >= kpos;
          if (kpos)
            vh_stat (faulted ? "gensalt_ra_fault_positions" : "gensalt_ra_unfaulted_runs", 1);
          if (check)
            {
              int want = op != OP_GENSALT_FAIL && !faulted;
              if (want && (!g || strncmp (g, "$1$", 3)))
                bad = 1;
              if (!want && g)
                bad = 1;
              if (!g && vh_ledger_live (0) != live_before)
                bad = 2;            /* NULL with something allocated */
              if (g && (vh_ledger_live (0) != live_before + 1 || !vh_ledger_find (g) || vh_ledger_find (g)->n < strlen (g) + 1))
                bad = 3;            /* result is not a live malloc block */
              if (vh_bad_free != badfree_before)
                bad = 4;
              if (bad)
                {
                  snprintf (sig, sizeof sig, "gensalt_ra-protocol/%d", bad);
                  vh_viol (sig, "%s,\"result\":%s,\"live_before\":%d,\"live_after\":%d,\"failed_request\":%ld,\"requests\":\"%s\"}", cj, vh_jstr (g), live_before, vh_ledger_live (0),
                           faulted ? kpos : 0L, vh_req_log);
                }
            }
          if (g && vh_ledger_find (g))
            {
              vh_seam_armed = 1;
              free (g);
              vh_seam_armed = 0;
            }
          /* whatever a broken tree left behind must not poison the states explored after this one */
          for (int i = 0; i < vh_nledger; i++)
            if (vh_ledger[i].live && vh_ledger[i].p != data && bad)
              vh_ledger[i].live = 0;
          if (!kpos || !faulted)
            break;
        }
      return bad != 0;
    }
  const char *phrase = op == OP_TOOLONG ? longphrase : "pw";
  const char *setting = op == OP_OK_MD5 || op == OP_TOOLONG || op == OP_OK_MD5_ALLOCFAIL || op == OP_OK_MD5_ALLOCFAIL2 ? vh_cheap[M_MD5][0] : op == OP_OK_DES ? vh_cheap[M_DES][0] : op == OP_OK_SHA256 ? vh_cheap[M_SHA256][0]
    : op == OP_FAIL_BADCHAR ? "$1$sa:lt" : op == OP_FAIL_UNKNOWN ? "$9$salt" : 0;
  grow_seen = grow_dirty = 0;
  recorded_at_call = size;
  vh_on_release = on_release;
  vh_on_request = on_request;
  watch_ptr = data;
  request_seen = request_dirty = 0;
  vh_req_count = 0;
  vh_fail_at[0] = op == OP_OK_MD5_ALLOCFAIL ? 1 : op == OP_OK_MD5_ALLOCFAIL2 ? 2 : 0;
  vh_seam_armed = 1;
  errno = 0;
  int k = VH_TRY (0);
  if (k == 0)
    {
      r = crypt_ra (phrase, setting, &data, &size);
      VH_END ();
    }
  int err = errno;
  vh_seam_armed = 0;
  vh_fail_at[0] = 0;
  vh_on_release = 0;
  vh_on_request = 0;
  long reqs = vh_req_count;
  vh_stat ("evaluations", 1);
  if (!check)
    return 0;
  if (k)
    {
      snprintf (sig, sizeof sig, "fatal/%s/%.50s", vh_fatal_name (k), vh_fatal_msg);
      vh_viol (sig, "%s,\"outcome\":\"%s\"}", cj, vh_js (vh_fatal_msg, strlen (vh_fatal_msg)));
      return 1;
    }
  /* ---- protocol model ---- */
  int must_grow = before_ptr == 0 || before_size < 0 || before_size < OBJ;
  if (request_dirty)
    {
      snprintf (sig, sizeof sig, "crypt_ra-protocol/undersized block not yet erased when the library asked the allocator for its replacement");
      vh_viol (sig, "%s,\"before\":{\"real\":%ld,\"recorded\":%d}}", cj, before_real, before_size);
      return 1;
    }
  if (op == OP_OK_MD5_ALLOCFAIL2 && reqs >= 2)
    {
      /* a second request exists and failed: no result, ENOMEM, and the pair still sound and owned by the caller */
      struct vh_blk *nb = data ? vh_ledger_find (data) : 0;
      const char *w = 0;
      if (r)
        w = "result returned although an allocation failed";
      else if (err != ENOMEM)
        w = "errno is not ENOMEM after a failed allocation";
      else if (data && !nb)
        w = "*data is not a live block after a failed allocation";
      else if (nb && size > 0 && (long) nb->n < (long) size && size >= OBJ)
        w = "*size exceeds the real block after a failed allocation";
      else if (vh_ledger_live (0) != (data ? 1 : 0) || vh_bad_free != badfree_before)
        w = "a block is live but not reachable through *data (or was freed twice) after a failed allocation";
      if (w)
        {
          snprintf (sig, sizeof sig, "crypt_ra-protocol/%s", w);
          vh_viol (sig, "%s,\"requests\":\"%s\",\"errno\":%d}", cj, vh_req_log, err);
          return 1;
        }
      return 0;
    }
  if (op == OP_OK_MD5_ALLOCFAIL && must_grow)
    {
      /* the single allocator request failed: NULL, ENOMEM, the caller's pair untouched and still owned by the caller */
      const char *w = 0;
      if (r)
        w = "result returned although the allocation failed";
      else if (err != ENOMEM)
        w = "errno is not ENOMEM after a failed allocation";
      else if (data != before_ptr || size != before_size)
        w = "*data or *size changed although the allocation failed";
      else if (before_ptr && !vh_ledger_find (before_ptr))
        w = "caller's block is no longer live after a failed allocation";
      else if (vh_ledger_live (0) != live_before || vh_bad_free != badfree_before)
        w = "live block count changed after a failed allocation";
      if (w)
        {
          snprintf (sig, sizeof sig, "crypt_ra-protocol/%s", w);
          vh_viol (sig, "%s,\"before\":{\"ptr\":%s,\"real\":%ld,\"recorded\":%d},\"after\":{\"ptr_changed\":%s,\"recorded\":%d},\"errno\":%d}", cj,
                   before_ptr ? "\"block\"" : "null", before_real, before_size, data != before_ptr ? "true" : "false", size, err);
          return 1;
        }
      return 0;
    }
  struct vh_blk *ab = data ? vh_ledger_find (data) : 0;
  const char *why = 0;
  if (!must_grow)
    {
      if (data != before_ptr || size != before_size)
        why = "adequate block was replaced or its size changed";
      else if (vh_ledger_live (0) != live_before)
        why = "allocation count changed although the block was adequate";
    }
  else
    {
      if (!data || !ab)
        why = "*data is not a live malloc block after the call";
      else if (size < OBJ || (long) ab->n < (long) size)
        why = "*size is below sizeof(struct crypt_data) or above the real block size";
      else if (before_ptr && !grow_seen && vh_ledger_find (before_ptr) && data != before_ptr)
        why = "the undersized block was neither released nor kept";
      else if (grow_dirty)
        why = "undersized block was not erased before reallocating it";
      else if (vh_ledger_live (0) != (before_ptr ? live_before : live_before + 1))
        why = "live block count wrong after growth (leak or lost block)";
      else
        {
          /* zero-initialised after growth: everything outside the output field, and the output field behind its string */
          const unsigned char *p = data;
          for (size_t i = sizeof (((struct crypt_data *) 0)->output); i < (size_t) OBJ; i++)
            if (p[i])
              {
                why = "grown block is not zero-initialised outside the output field";
                break;
              }
          for (size_t i = strnlen ((const char *) p, sizeof (((struct crypt_data *) 0)->output)); !why && i < sizeof (((struct crypt_data *) 0)->output); i++)
            if (p[i])
              why = "grown block is not zero-initialised behind the string in the output field";
        }
    }
  if (!why && vh_bad_free != badfree_before)
    why = "free/realloc of a pointer that is not a live block";
  int want_ok = op <= OP_OK_SHA256 || op == OP_OK_MD5_ALLOCFAIL || op == OP_OK_MD5_ALLOCFAIL2;
  if (!why && want_ok && (!r || strcmp (r, expect[op >= OP_OK_MD5_ALLOCFAIL ? 0 : op])))
    why = "valid request failed or returned a different hash";
  if (!why && !want_ok && r)
    why = "invalid request returned a result";
  if (!why && r && r != ((struct crypt_data *) data)->output)
    why = "result does not point into the block";
  if (!why && !r && data && ((struct crypt_data *) data)->output[0] != '*')
    why = "failed call left no failure token in the block";
  if (why)
    {
      snprintf (sig, sizeof sig, "crypt_ra-protocol/%s", why);
      vh_viol (sig, "%s,\"before\":{\"ptr\":%s,\"real\":%ld,\"recorded\":%d},\"after\":{\"ptr_changed\":%s,\"real\":%ld,\"recorded\":%d},\"result\":%s}", cj,
               before_ptr ? "\"block\"" : "null", before_real, before_size, data != before_ptr ? "true" : "false", ab ? (long) ab->n : -1L, size, vh_jstr (r));
      return 1;
    }
  (void) before_real;
  return 0;
}

/* final obligation of every explored state: the caller frees *data once, nothing is left */
static int
end_of_history (const char *trace, int si)
{
  long bf = vh_bad_free;
  vh_seam_armed = 1;
  free (data);
  vh_seam_armed = 0;
  int live = vh_ledger_live (0);
  if (live != 0 || vh_bad_free != bf)
    {
      snprintf (cj, sizeof cj, "{\"start\":\"%s\",\"history\":\"%s\",\"replay\":\"%d:%s\"", starts[si].name, trace, si, trace);
      vh_viol ("leak-or-double-free-at-end", "%s,\"live_blocks_after_caller_free\":%d}", cj, live);
      return 1;
    }
  return 0;
}

#define MAXS 20000
#define MAXD 6
static struct { uint64_t key; int parent; unsigned char op, depth; } st[MAXS];

static void
replay_path (int si, int s, char *trace, size_t tl)
{
  unsigned char path[MAXD + 1];
  int pl = 0;
  for (int x = s; st[x].parent >= 0; x = st[x].parent)
    path[pl++] = st[x].op;
  make_start (si);
  trace[0] = 0;
  for (int i = pl - 1; i >= 0; i--)
    {
      apply (path[i], 0, "", si);
      snprintf (trace + strlen (trace), tl - strlen (trace), "%d.", path[i]);
    }
}

static void
bfs (int si)
{
  int ns = 0, maxd = 0, closed = 1;
  char trace[64];
  make_start (si);
  st[0].key = state_key ();
  st[0].parent = -1;
  st[0].depth = 0;
  ns = 1;
  end_of_history ("", si);
  int cap = MAXD;
  for (int cur = 0; cur < ns; cur++)
    {
      if (st[cur].depth >= cap)
        {
          closed = 0;
          continue;
        }
      for (int op = 0; op < NOPS; op++)
        {
          replay_path (si, cur, trace, sizeof trace);
          if (state_key () != st[cur].key)
            vh_internal ("replay diverged: start %s state %d", starts[si].name, cur);
          snprintf (trace + strlen (trace), sizeof trace - strlen (trace), "%d", op);
          transitions++;
          vh_stat ("transitions", 1);
          if (apply (op, 1, trace, si))
            {
              end_of_history (trace, si);
              continue;
            }
          uint64_t k = state_key ();
          int known = 0;
          for (int i = 0; i < ns; i++)
            if (st[i].key == k)
              {
                known = 1;
                break;
              }
          if (end_of_history (trace, si))
            continue;
          if (!known && ns < MAXS)
            {
              st[ns].key = k;
              st[ns].parent = cur;
              st[ns].op = (unsigned char) op;
              st[ns].depth = (unsigned char) (st[cur].depth + 1);
              if (st[ns].depth > maxd)
                maxd = st[ns].depth;
              ns++;
            }
        }
    }
  vh_stat ("states", ns);
  vh_statmax ("max_depth", maxd);
  vh_stat (closed ? "start_states_closed" : "start_states_depth_capped", 1);
  vh_sample ("{\"start\":\"%s\",\"states\":%d,\"depth\":%d,\"closure\":%s,\"alphabet\":%d}", starts[si].name, ns, maxd, closed ? "true" : "false", NOPS);
}

/* ---- conformance with the TLA+ model (tla/CryptRa.tla): replay every edge of TLC's state graph ------------- */
static const char *
abs_blk (void)
{
  struct vh_blk *b = data ? vh_ledger_find (data) : 0;
  if (!data)
    return "null";
  if (!b)
    return "dangling";
  return b->n >= (size_t) OBJ ? "adequate" : "small";
}

static const char *
abs_rec (void)
{
  return size < 0 ? "neg" : size == 0 ? "zero" : size < OBJ ? "small" : "ok";
}

static void
replay_edges (const char *file)
{
  FILE *f = fopen (file, "r");
  if (!f)
    vh_internal ("cannot open edge file %s", file);
  char sb[16], sr[16], act[24], db[16], dr[16];
  int sl, dl, n = 0;
  static struct start custom = { "model-state", 0, 0 };
  while (fscanf (f, "%15s %15s %d %23s %15s %15s %d", sb, sr, &sl, act, db, dr, &dl) == 7)
    {
      /* concretise the source state (representatives of each class; a positive recorded size never exceeds the block) */
      int real = !strcmp (sb, "null") ? 0 : !strcmp (sb, "small") ? 100 : OBJ;
      int recd = !strcmp (sr, "neg") ? -5 : !strcmp (sr, "zero") ? 0 : !strcmp (sr, "small") ? 100 : (real == 0 ? 40000 : OBJ);
      vh_ledger_reset ();
      data = 0;
      if (real)
        {
          vh_seam_armed = 1;
          data = malloc ((size_t) real);
          vh_seam_armed = 0;
          memset (data, 0x6B, (size_t) real);
        }
      size = recd;
      if (strcmp (abs_blk (), sb) || strcmp (abs_rec (), sr) || vh_ledger_live (0) != sl)
        vh_internal ("cannot concretise model state (%s,%s,%d)", sb, sr, sl);
      int op = !strcmp (act, "ra_ok") ? OP_OK_MD5 : !strcmp (act, "ra_bad") ? OP_FAIL_BADCHAR : !strcmp (act, "ra_allocfail") ? OP_OK_MD5_ALLOCFAIL : !strcmp (act, "caller_free") ? OP_FREE_RESET : -1;
      if (op < 0)
        vh_internal ("unknown model action %s", act);
      char trace[80];
      snprintf (trace, sizeof trace, "model:(%s,%s,%d)-%s", sb, sr, sl, act);
      starts_custom_name (trace);
      int bad = apply (op, 1, trace, -1);
      vh_stat ("model_edges_replayed", 1);
      vh_stat ("transitions", 1);
      n++;
      if (!bad && (strcmp (abs_blk (), db) || strcmp (abs_rec (), dr) || vh_ledger_live (0) != dl))
        {
          vh_viol ("implementation-leaves-the-model/crypt_ra", "{\"model_edge\":\"(%s,%s,live=%d) -%s-> (%s,%s,live=%d)\",\"implementation_reached\":\"(%s,%s,live=%d)\",\"replay\":\"edges\"}", sb, sr, sl,
                   act, db, dr, dl, abs_blk (), abs_rec (), vh_ledger_live (0));
        }
      if (data)
        {
          vh_seam_armed = 1;
          free (data);
          vh_seam_armed = 0;
          data = 0;
        }
    }
  fclose (f);
  (void) custom;
  vh_stat ("states", 1);
  vh_sample ("{\"tla_model\":\"tla/CryptRa.tla\",\"edges_replayed_against_crypt_ra\":%d}", n);
}

/* crypt_gensalt_ra over its whole argument space (every prefix class x counts x rbytes NULL/given x nrbytes from INT_MIN to
   past every method's need) x every allocator fault position: whatever it answers, NULL comes with nothing allocated and a
   string is exactly one live block that the caller frees.  Whether the answer is the right one is C10's and C13's business. */
static const char *const gprefix[] = { "$y$", "$gy$", "$7$", "$2b$", "$2a$", "$2x$", "$2y$", "$6$", "$5$", "$sha1", "$md5", "$1$", "$3$", "_", "", 0, "$9$", "$y$j9T$", "$6$rounds=" };
#define NGPREFIX ((int) (sizeof gprefix / sizeof *gprefix))
static const unsigned long gcount[] = { 0, 1, 4, 11, 1000, 5000, 99999, 4294967295UL, (unsigned long) -1 };
static const int gnrb[] = { INT_MIN, -65536, -1, 0, 1, 2, 3, 4, 8, 15, 16, 17, 31, 32, 64, 65, 256, 512 };
static unsigned char grb[512];
static int
gensalt_ra_case (int pi, int ci, int ri, int ni)
{
  char sig[200];
  int bad = 0;
  for (long kpos = 0; kpos <= 8 && !bad; kpos++)
    {
      vh_ledger_reset ();
      vh_req_count = 0;
      vh_fail_at[0] = kpos;
      vh_seam_armed = 1;
      errno = (pi + ni) % 3 ? EEXIST : 0;
      char *g = 0;
      int k = VH_TRY (0);
      if (k == 0)
        {
          g = crypt_gensalt_ra (gprefix[pi], gcount[ci], ri ? (const char *) grb : 0, gnrb[ni]);
          VH_END ();
        }
      vh_seam_armed = 0;
      vh_fail_at[0] = 0;
      int faulted = kpos && vh_req_count >= kpos;
      vh_stat ("evaluations", 1);
      vh_stat ("gensalt_ra_argument_cases", 1);
      snprintf (cj, sizeof cj, "{\"call\":\"crypt_gensalt_ra\",\"prefix\":%s,\"count\":%lu,\"rbytes\":\"%s\",\"nrbytes\":%d,\"failed_request\":%ld,\"replay\":\"G:%d:%d:%d:%d\"", vh_jstr (gprefix[pi]),
                gcount[ci], ri ? "given" : "NULL", gnrb[ni], faulted ? kpos : 0L, pi, ci, ri, ni);
      if (k)
        {
          snprintf (sig, sizeof sig, "fatal/%s/%.50s", vh_fatal_name (k), vh_fatal_msg);
          vh_viol (sig, "%s,\"outcome\":\"%s\"}", cj, vh_js (vh_fatal_msg, strlen (vh_fatal_msg)));
          return 1;
        }
      if (faulted && g)
        bad = 1;                /* a string although a request failed */
      else if (!g && vh_ledger_live (0) != 0)
        bad = 2;                /* NULL with something allocated */
      else if (g && (vh_ledger_live (0) != 1 || !vh_ledger_find (g) || vh_ledger_find (g)->n < strlen (g) + 1))
        bad = 3;                /* result is not exactly one live malloc block */
      else if (vh_bad_free)
        bad = 4;
      if (g)
        vh_stat ("gensalt_ra_argument_cases_with_result", 1);
      if (bad)
        {
          static const char *const w[] = { "", "string returned although an allocator request failed", "NULL returned with a block still allocated (leak)",
            "result is not exactly one live malloc block holding the string", "free/realloc of a pointer that is not a live block" };
          snprintf (sig, sizeof sig, "gensalt_ra-protocol/%s", w[bad]);
          vh_viol (sig, "%s,\"result\":%s,\"live_after\":%d,\"requests\":\"%s\"}", cj, vh_jstr (g), vh_ledger_live (0), vh_req_log);
        }
      if (g && vh_ledger_find (g))
        {
          vh_seam_armed = 1;
          free (g);
          vh_seam_armed = 0;
        }
      if (!kpos)
        continue;               /* position 0 is the fault-free run; then positions 1.. until a run has fewer requests */
      if (!faulted)
        break;
    }
  return bad != 0;
}

int
main (int argc, char **argv)
{
  vh_init (argc, argv);
  struct crypt_data *d = calloc (1, sizeof *d);
  strcpy (expect[0], crypt_rn ("pw", vh_cheap[M_MD5][0], d, sizeof *d));
  strcpy (expect[1], crypt_rn ("pw", vh_cheap[M_DES][0], d, sizeof *d));
  strcpy (expect[2], crypt_rn ("pw", vh_cheap[M_SHA256][0], d, sizeof *d));
  memset (longphrase, 'x', 600);
  for (int i = 1; i + 1 < argc; i++)
    if (!strcmp (argv[i], "--edges"))
      {
        replay_edges (argv[i + 1]);
        vh_done ();
        return 0;
      }
  if (vh_replay && *vh_replay)
    {
      int si;
      char ops[64] = "";
      int g1, g2, g3, g4;
      if (sscanf (vh_replay, "G:%d:%d:%d:%d", &g1, &g2, &g3, &g4) == 4)
        {
          for (size_t i = 0; i < sizeof grb; i++)
            grb[i] = (unsigned char) (i * 29 + 1);
          gensalt_ra_case (g1, g2, g3, g4);
          vh_done ();
          return 0;
        }
      if (sscanf (vh_replay, "%d:%63s", &si, ops) < 1)
        vh_internal ("bad replay token");
      make_start (si);
      char trace[64] = "";
      for (char *t = strtok (ops, "."); t; t = strtok (0, "."))
        {
          snprintf (trace + strlen (trace), sizeof trace - strlen (trace), "%s%s", trace[0] ? "." : "", t);
          vh_stat ("transitions", 1);
          if (apply (atoi (t), 1, trace, si))
            break;
        }
      end_of_history (trace, si);
      vh_stat ("states", 1);
      vh_done ();
      return 0;
    }
  for (int si = 0; si < NSTART; si++)
    if (vh_mine ((uint64_t) si))
      bfs (si);
  for (size_t i = 0; i < sizeof grb; i++)
    grb[i] = (unsigned char) (i * 29 + 1);
  uint64_t gi = NSTART;
  for (int pi = 0; pi < NGPREFIX; pi++)
    for (unsigned ci = 0; ci < sizeof gcount / sizeof *gcount; ci++)
      for (int ri = 0; ri < 2; ri++)
        for (unsigned ni = 0; ni < sizeof gnrb / sizeof *gnrb; ni++)
          if (vh_mine (gi++))
            gensalt_ra_case (pi, (int) ci, ri, (int) ni);
  vh_done ();
  return 0;
}
