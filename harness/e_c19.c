/* C19: per-configuration API transcript.  Built once per hash selection against that
   selection's library; prints one line per corpus request.  vlib/c19.py compares the lines
   with the full build's transcript (enabled methods) or with the unknown-tag pattern
   (disabled methods).  Configuration-agnostic on purpose. */
#include "vh_rt.h"
#include "vh_methods.h"
#include <crypt.h>
#include <stdlib.h>

static const char *const extra[M_COUNT][3] = {
  [M_YESCRYPT] = { "$y$j75$saltSALTsalt$JbcJpN7m4lB8Jc8D6YiHiWTWJ3zX8RRjWKUNaklHtXC", "$y$.4/$ABCDEFGH", "$y$j75..$ABCDEFGH" },
  [M_GOST] = { "$gy$j75$saltSALTsalt$UY5tLt65E9Zv.H33FLrzNM./z9jMShBX2vO9BeR/bX7", "$gy$.4/$ABCDEFGH", 0 },
  [M_SCRYPT] = { "$7$4/..../....saltSALTsalt$y.Xd1ULf10YxmTTsUmOi0l81Xwte/2cufn5gn11Fzc8", "$7$2/....0....ABCD", 0 },
  [M_BCRYPT_B] = { "$2b$05$abcdefghijklmnopqrstuu", 0, 0 },
  [M_BCRYPT_Y] = { "$2y$05$abcdefghijklmnopqrstuu", 0, 0 },
  [M_BCRYPT_A] = { "$2a$05$abcdefghijklmnopqrstuu", 0, 0 },
  [M_BCRYPT_X] = { "$2x$05$abcdefghijklmnopqrstuu", 0, 0 },
  [M_SHA512] = { "$6$rounds=1001$salt", "$6$saltSALTsaltSALTxx$", 0 },
  [M_SHA256] = { "$5$rounds=1001$salt", "$5$saltSALTsaltSALTxx$", 0 },
  [M_SHA1] = { "$sha1$100$salt$", 0, 0 },
  [M_SUNMD5] = { "$md5$salt$$", 0, 0 },
  [M_MD5] = { "$1$$", "$1$12345678xx", 0 },
  [M_NT] = { "$3$$junk", 0, 0 },
  [M_BSDI] = { "_J9..saltjpKkjC8D9qM", 0, 0 },
  [M_BIG] = { "abhfCpXqd4GrIatlJWV.Y872", "zz............", 0 },
  [M_DES] = { "abhfCpXqd4GrI", "zz", 0 },
};
static const char *const phrases[] = { "", "pw", "nine-char", "a-phrase-of-more-than-sixteen-bytes",
  "\xff\xff\xa3" /* 8-bit: the input class the $2a$/$2x$ rules and the DES key loaders treat specially */, "\xd0\xc1\xd2\xcf\xcc\xd8\x80z", 0 };

int
main (int argc, char **argv)
{
  vh_init (argc, argv);
  vh_mmap_cap = (size_t) 300 << 20;
  struct crypt_data *d = calloc (1, sizeof *d);
  static const unsigned char rb[64] = "0123456789abcdefghijklmnopqrstuvwxyzABCDEFGHIJKLMNOPQRSTUVWXYZ./";
  for (int m = 0; m < M_COUNT; m++)
    {
      const char *sets[5] = { vh_cheap[m][0], vh_cheap[m][1], extra[m][0], extra[m][1], extra[m][2] };
      for (int s = 0; s < 5; s++)
        {
          if (!sets[s])
            continue;
          for (int p = 0; phrases[p]; p++)
            {
              /* an object as crypt(3) allows it on first use: arbitrary contents, only 'initialized' cleared */
              memset (d, (p + s) % 2 ? 0xA5 : 0x3C, sizeof *d);
              d->initialized = 0;
              errno = 0;
              char *r = crypt_rn (phrases[p], sets[s], d, sizeof *d);
              int e = errno;
              printf ("T C|%d|%s|%d => %s|%d\n", m, sets[s], p, r ? r : "NULL", r ? 0 : e);
              errno = 0;
              r = crypt (phrases[p], sets[s]);
              e = errno;
              printf ("T S|%d|%s|%d => %s|%d\n", m, sets[s], p, r ? r : "NULL", (r && r[0] != '*') ? 0 : e);
            }
          printf ("T K|%d|%s => %d\n", m, sets[s], crypt_checksalt (sets[s]));
        }
      static const unsigned long counts[] = { 0, 4, 6, 11, 1000 };
      for (unsigned c = 0; c < 5; c++)
        for (int nrb = 16; nrb <= 32; nrb += 16)
          {
            char out[CRYPT_GENSALT_OUTPUT_SIZE];
            errno = 0;
            char *r = crypt_gensalt_rn (vh_methods[m].tag, counts[c], (const char *) rb, nrb, out, sizeof out);
            int e = errno;
            printf ("T G|%d|%s|%lu|%d => %s|%d\n", m, vh_methods[m].tag, counts[c], nrb, r ? r : "NULL", r ? 0 : e);
            if (r && counts[c] == 0)
              {
                /* the generated setting hashes, and its result verifies */
                char *h = crypt_rn ("pw", out, d, sizeof *d);
                printf ("T H|%d|%s|%d => %s\n", m, vh_methods[m].tag, nrb, h ? "hashes" : "REFUSED");
              }
          }
    }
  /* unknown tag: the pattern a disabled method must reproduce */
  {
    errno = 0;
    char *r = crypt_rn ("pw", "$9$salt", d, sizeof *d);
    printf ("T U|crypt => %s|%d\n", r ? r : "NULL", errno);
    char out[CRYPT_GENSALT_OUTPUT_SIZE];
    errno = 0;
    r = crypt_gensalt_rn ("$9$", 0, (const char *) rb, 16, out, sizeof out);
    printf ("T U|gensalt => %s|%d\n", r ? r : "NULL", errno);
    printf ("T U|checksalt => %d\n", crypt_checksalt ("$9$salt"));
  }
  const char *pm = crypt_preferred_method ();
  printf ("T P => %s\n", pm ? pm : "NULL");
  printf ("T Q => %d\n", pm ? crypt_checksalt (pm) : -1);      /* the preferred method is one checksalt calls OK */
  for (int f = 0; f < 3; f++)
    {
      char out[CRYPT_GENSALT_OUTPUT_SIZE], out2[CRYPT_GENSALT_OUTPUT_SIZE];
      errno = 0;
      char *r = crypt_gensalt_rn (0, 0, (const char *) rb + f, 32, out, sizeof out);
      int e = errno;
      char *r2 = pm ? crypt_gensalt_rn (pm, 0, (const char *) rb + f, 32, out2, sizeof out2) : 0;
      printf ("T N|%d => %s|%d|%s\n", f, r ? r : "NULL", r ? 0 : e, (!r && !r2) || (r && r2 && !strcmp (r, r2)) ? "same-as-preferred" : "DIFFERS-FROM-PREFERRED");
    }
#ifdef CRYPT_GENSALT_IMPLEMENTS_DEFAULT_PREFIX
  printf ("T D => %d\n", CRYPT_GENSALT_IMPLEMENTS_DEFAULT_PREFIX);
#else
  printf ("T D => undefined\n");
#endif
  printf ("DONE 1\n");
  return 0;
}
