/* C08: re-entrant interfaces are thread-safe.
   Engine S: preemption-bounded schedule exploration of real threads over the real library.
   The library is compiled with gcc -fsanitize=thread but linked WITHOUT libtsan: this file
   supplies the __tsan_* ABI, so every load/store the library makes is reported here (plus
   the libc string/memory routines it calls, interposed below).  Accesses are classified by
   address: the library's writable static image (shared), a region registered as private to
   some thread (data objects, buffers), or other (stack, per-call mappings: ignored).
   Scheduling points: operation start/end, every write to the shared image, every read of an
   image byte that any thread has ever written, every access to another thread's region.
   One thread runs at a time (semaphore hand-off); the explorer enumerates all schedules with
   at most B preemptions (B = 0,1,2), replaying choice prefixes; divergence is a hard error.
   A shadow of the image records the last writer and the readers of every byte during an
   execution: two accesses to one byte from different threads, one a write, are a data race
   (the library uses no synchronisation, so there is no happens-before between threads). */
#define _GNU_SOURCE
#include "vh_rt.h"
#include "vh_methods.h"
#include "vh_image.h"
#include <crypt.h>
#include <pthread.h>
#include <semaphore.h>
#include <stdarg.h>
#include <stdlib.h>

/* ---- access hook runtime ------------------------------------------------------ */
#define MAXT 3
static volatile int cur = -1;   /* logical thread now running library code, -1: harness */
static volatile int tracking;   /* hooks active */
struct region { const unsigned char *p; size_t n; };
static struct region priv[MAXT][8];
static int npriv[MAXT];
static signed char *sh_writer;          /* per image byte: last writer in this execution, -1 none */
static unsigned char *sh_readers;       /* per image byte: reader mask in this execution */
static unsigned char *ever_written;     /* per image byte: written by any thread in any execution of this configuration */
static long n_shared_writes, n_shared_reads, n_foreign, n_races;
static char race_desc[300];
static void sched_point (int kind);
enum { PT_START, PT_END, PT_SHARED_WRITE, PT_SHARED_READ, PT_FOREIGN, PT_MAP };

static inline long
image_off (const void *a)
{
  size_t base = 0;
  for (int i = 0; i < vh_nimg; i++)
    {
      if ((const unsigned char *) a >= vh_img[i].p && (const unsigned char *) a < vh_img[i].p + vh_img[i].n)
        return (long) (base + (size_t) ((const unsigned char *) a - vh_img[i].p));
      base += vh_img[i].n;
    }
  return -1;
}

static int hidden_libc_state (const void *a);
static void
access_hook (const void *a, size_t n, int is_write)
{
  if (!tracking || cur < 0 || n == 0)
    return;
  int t = cur;
  long off = image_off (a);
  if (off >= 0)
    {
      if (off + (long) n > (long) vh_img_total)
        n = (size_t) ((long) vh_img_total - off);
      int point = is_write;
      if (!is_write)
        for (size_t i = 0; i < n; i++)
          if (ever_written[off + (long) i])
            point = 1;
      if (point)
        sched_point (is_write ? PT_SHARED_WRITE : PT_SHARED_READ);
      if (is_write)
        n_shared_writes++;
      else
        n_shared_reads++;
      for (size_t i = 0; i < n; i++)
        {
          long b = off + (long) i;
          int w = sh_writer[b];
          if (is_write)
            {
              if ((w >= 0 && w != t) || (sh_readers[b] & ~(1u << t)))
                {
                  if (!n_races++)
                    snprintf (race_desc, sizeof race_desc, "write by thread %d to %s at image offset %ld previously %s by thread %d", t, hidden_libc_state (a) ? "hidden static state of a libc function the library calls (modelled)" : "library static", b,
                              (w >= 0 && w != t) ? "written" : "read", (w >= 0 && w != t) ? w : (sh_readers[b] & ~(1u << t)) == 1 ? 0 : (sh_readers[b] & 2 && t != 1) ? 1 : 2);
                }
              sh_writer[b] = (signed char) t;
              sh_readers[b] = 0;
              ever_written[b] = 1;
            }
          else
            {
              if (w >= 0 && w != t)
                {
                  if (!n_races++)
                    snprintf (race_desc, sizeof race_desc, "read by thread %d of %s at image offset %ld written by thread %d", t, hidden_libc_state (a) ? "hidden static state of a libc function the library calls (modelled)" : "library static", b, w);
                }
              sh_readers[b] |= (unsigned char) (1u << t);
            }
        }
      return;
    }
  for (int o = 0; o < MAXT; o++)
    if (o != t)
      for (int r = 0; r < npriv[o]; r++)
        if ((const unsigned char *) a < priv[o][r].p + priv[o][r].n && (const unsigned char *) a + n > priv[o][r].p)
          {
            if (!n_foreign++)
              snprintf (race_desc, sizeof race_desc, "thread %d %s memory private to thread %d", t, is_write ? "wrote" : "read", o);
            sched_point (PT_FOREIGN);
            return;
          }
}

#define RD(n) void __tsan_read##n (void *a); void __tsan_read##n (void *a) { access_hook (a, n, 0); } \
  void __tsan_unaligned_read##n (void *a); void __tsan_unaligned_read##n (void *a) { access_hook (a, n, 0); }
#define WR(n) void __tsan_write##n (void *a); void __tsan_write##n (void *a) { access_hook (a, n, 1); } \
  void __tsan_unaligned_write##n (void *a); void __tsan_unaligned_write##n (void *a) { access_hook (a, n, 1); }
RD (1) RD (2) RD (4) RD (8) RD (16) WR (1) WR (2) WR (4) WR (8) WR (16)
void __tsan_read_range (void *a, size_t n);
void __tsan_read_range (void *a, size_t n) { access_hook (a, n, 0); }
void __tsan_write_range (void *a, size_t n);
void __tsan_write_range (void *a, size_t n) { access_hook (a, n, 1); }
void __tsan_init (void);
void __tsan_init (void) { }
void __tsan_func_entry (void *pc);
void __tsan_func_entry (void *pc) { (void) pc; }
void __tsan_func_exit (void);
void __tsan_func_exit (void) { }
void __tsan_vptr_read (void **p);
void __tsan_vptr_read (void **p) { (void) p; }
void __tsan_vptr_update (void **p, void *v);
void __tsan_vptr_update (void **p, void *v) { (void) p; (void) v; }

/* libc routines the library calls (it is built with -fno-builtin): report, then do the work with plain loops.
   This translation unit is compiled with -fno-builtin -fno-tree-loop-distribute-patterns so the loops stay loops. */
void *
memcpy (void *d, const void *s, size_t n)
{
  access_hook (s, n, 0);
  access_hook (d, n, 1);
  unsigned char *dp = d;
  const unsigned char *sp = s;
  for (size_t i = 0; i < n; i++)
    dp[i] = sp[i];
  return d;
}

void *
memmove (void *d, const void *s, size_t n)
{
  access_hook (s, n, 0);
  access_hook (d, n, 1);
  unsigned char *dp = d;
  const unsigned char *sp = s;
  if (dp < sp)
    for (size_t i = 0; i < n; i++)
      dp[i] = sp[i];
  else
    for (size_t i = n; i > 0; i--)
      dp[i - 1] = sp[i - 1];
  return d;
}

void *
memset (void *d, int c, size_t n)
{
  access_hook (d, n, 1);
  volatile unsigned char *dp = d;
  for (size_t i = 0; i < n; i++)
    dp[i] = (unsigned char) c;
  return d;
}

void
explicit_bzero (void *d, size_t n)
{
  access_hook (d, n, 1);
  volatile unsigned char *dp = d;
  for (size_t i = 0; i < n; i++)
    dp[i] = 0;
}

int
memcmp (const void *a, const void *b, size_t n)
{
  access_hook (a, n, 0);
  access_hook (b, n, 0);
  const unsigned char *x = a, *y = b;
  for (size_t i = 0; i < n; i++)
    if (x[i] != y[i])
      return x[i] < y[i] ? -1 : 1;
  return 0;
}

size_t
strlen (const char *s)
{
  size_t n = 0;
  while (s[n])
    n++;
  access_hook (s, n + 1, 0);
  return n;
}

int
strncmp (const char *a, const char *b, size_t n)
{
  size_t i = 0;
  int r = 0;
  for (; i < n; i++)
    {
      unsigned char x = (unsigned char) a[i], y = (unsigned char) b[i];
      if (x != y)
        {
          r = x < y ? -1 : 1;
          i++;
          break;
        }
      if (!x)
        {
          i++;
          break;
        }
    }
  access_hook (a, i, 0);
  access_hook (b, i, 0);
  return r;
}

char *
strchr (const char *s, int c)
{
  size_t i = 0;
  for (;; i++)
    {
      if (s[i] == (char) c)
        {
          access_hook (s, i + 1, 0);
          return (char *) (s + i);
        }
      if (!s[i])
        break;
    }
  access_hook (s, i + 1, 0);
  return 0;
}

char *
strrchr (const char *s, int c)
{
  const char *last = 0;
  size_t i = 0;
  for (;; i++)
    {
      if (s[i] == (char) c)
        last = s + i;
      if (!s[i])
        break;
    }
  access_hook (s, i + 1, 0);
  return (char *) last;
}

size_t
strcspn (const char *s, const char *rej)
{
  size_t i = 0;
  for (; s[i]; i++)
    {
      int hit = 0;
      for (size_t j = 0; rej[j]; j++)
        if (s[i] == rej[j])
          hit = 1;
      if (hit)
        break;
    }
  access_hook (s, i + 1, 0);
  return i;
}

size_t
strspn (const char *s, const char *acc)
{
  size_t i = 0;
  for (; s[i]; i++)
    {
      int hit = 0;
      for (size_t j = 0; acc[j]; j++)
        if (s[i] == acc[j])
          hit = 1;
      if (!hit)
        break;
    }
  access_hook (s, i + 1, 0);
  return i;
}

/* ---- scheduler ---------------------------------------------------------------- */
static sem_t sem[MAXT], sem_main;
static int nthreads;
static volatile int finished[MAXT], started;
#define MAXPTS 4096
struct point { unsigned char running, nenabled, chosen, kind; unsigned char enabled[MAXT]; };
static struct point pts[MAXPTS];
static int npts;
static const unsigned char *prefix;
static int prefix_len;
static int horizon_hit;

static int
choose (int running, int kind)
{
  /* canonical order: the running thread first when still enabled, then ascending ids */
  unsigned char en[MAXT];
  int ne = 0;
  if (running >= 0 && !finished[running])
    en[ne++] = (unsigned char) running;
  for (int t = 0; t < nthreads; t++)
    if (t != running && !finished[t])
      en[ne++] = (unsigned char) t;
  if (ne == 0)
    return -1;
  int c = 0;
  if (npts < prefix_len)
    {
      c = prefix[npts];
      if (c >= ne)
        vh_internal ("schedule replay diverged at point %d (choice %d of %d enabled)", npts, c, ne);
    }
  if (npts < MAXPTS)
    {
      struct point *p = &pts[npts];
      p->running = (unsigned char) (running >= 0 && !finished[running] ? 1 : 0);
      p->nenabled = (unsigned char) ne;
      p->chosen = (unsigned char) c;
      p->kind = (unsigned char) kind;
      memcpy (p->enabled, en, sizeof en);
      npts++;
    }
  else
    horizon_hit = 1;
  return en[c];
}

static void
sched_point (int kind)
{
  int t = cur;
  int next = choose (t, kind);
  if (next != t)
    {
      cur = next;
      sem_post (&sem[next]);
      sem_wait (&sem[t]);
      cur = t;
    }
}

/* ---- the process address space is shared state too ------------------------------------ */
/* every mapping belongs to the thread whose operation made it; mmap and munmap are scheduling points; a thread may only
   unmap, exactly, what it mapped (anything else can hit memory another thread obtained in between) */
static struct { unsigned char *p; size_t n; int owner; } maps[64];
static int nmaps;
static long n_mapviol;
static unsigned char *img_pristine;
static int tid_of_caller (void);
static void
on_map (int kind, void *addr, size_t len)
{
  if (!tracking || tid_of_caller () < 0)
    return;
  int me = tid_of_caller ();
  if (kind == 'M')
    {
      if (nmaps < 64)
        {
          maps[nmaps].p = addr;
          maps[nmaps].n = len;
          maps[nmaps].owner = me;
          nmaps++;
        }
      sched_point (PT_MAP);
      return;
    }
  sched_point (PT_MAP);
  for (int i = 0; i < nmaps; i++)
    if (maps[i].p == (unsigned char *) addr && maps[i].owner == me && ((maps[i].n + 4095) & ~(size_t) 4095) == ((len + 4095) & ~(size_t) 4095))
      {
        maps[i] = maps[--nmaps];
        return;
      }
  n_mapviol++;
  if (!race_desc[0])
    snprintf (race_desc, sizeof race_desc, "thread %d unmaps %zu bytes at a mapping it did not make with that length", me, len);
}

/* ---- operations ----------------------------------------------------------------- */
enum { O_RN, O_R, O_RA, O_GENSALT_RN, O_GENSALT_RN_NULL, O_GENSALT_RA, O_CHECKSALT, O_PREFERRED, O_CRYPT_STATIC, O_GENSALT_STATIC, O_RN_LONG, O_DES_R };
struct opdef { int kind; int m; const char *setting; unsigned long count; char name[64]; };
static struct opdef ops[96];
static void (*p_setkey_r) (const char *, struct crypt_data *);
static void (*p_encrypt_r) (char *, int, struct crypt_data *);
static int nops, ncanary0;

struct tctx
{
  int id;
  int nops;
  int op[2];
  struct crypt_data *obj;       /* private object */
  char *gbuf;                   /* private gensalt buffer */
  unsigned char *rb;            /* private random bytes */
  void *ra;                     /* crypt_ra handle */
  int ra_size;
  char res[2][CRYPT_OUTPUT_SIZE];
  int isnull[2];
  unsigned char ent[2][64];     /* bytes the entropy seam gave to this thread's op */
  int entn[2];
};
static struct tctx T[MAXT];
static __thread int my_tid = -1;
static int
tid_of_caller (void)
{
  return my_tid;
}

static void
run_op (struct tctx *c, int k)
{
  const struct opdef *o = &ops[c->op[k]];
  char *r = 0;
  const char *P = c->id == 0 ? "thread-zero-pw" : c->id == 1 ? "thread-one-passphrase" : "third";
  switch (o->kind)
    {
    case O_RN: r = crypt_rn (P, o->setting, c->obj, sizeof *c->obj); break;
    case O_RN_LONG:
      {
        /* phrases beyond every internal block size (HMAC key blocks of 64 and 128 bytes, bcrypt's 72, bigcrypt's 128), different per thread */
        char lp[200];
        size_t n = (size_t) (100 + 33 * c->id);
        for (size_t i = 0; i < n; i++)
          lp[i] = (char) ('a' + (i * 7 + (size_t) c->id * 3) % 26);
        lp[n] = 0;
        r = crypt_rn (lp, o->setting, c->obj, sizeof *c->obj);
        break;
      }
    case O_DES_R:
      {
        /* the obsolete re-entrant DES pair on the thread's own object: key and block differ per thread; count = edflag */
        static const unsigned char keys[MAXT][8] = { { 0x13, 0x34, 0x57, 0x79, 0x9b, 0xbc, 0xdf, 0xf1 }, { 0xfe, 0xdc, 0xba, 0x98, 0x76, 0x54, 0x32, 0x10 }, { 0x01, 0x01, 0x01, 0x01, 0x01, 0x01, 0x01, 0x01 } };
        static const unsigned char blks[MAXT][8] = { { 0x01, 0x23, 0x45, 0x67, 0x89, 0xab, 0xcd, 0xef }, { 0xff, 0x00, 0xaa, 0x55, 0x0f, 0xf0, 0x33, 0xcc }, { 0x80, 0, 0, 0, 0, 0, 0, 0x01 } };
        char kv[64], bv[64];
        for (int i = 0; i < 64; i++)
          {
            kv[i] = (char) ((keys[c->id][i / 8] >> (7 - i % 8)) & 1);
            bv[i] = (char) ((blks[c->id][i / 8] >> (7 - i % 8)) & 1);
          }
        p_setkey_r (kv, c->obj);
        p_encrypt_r (bv, (int) o->count, c->obj);
        for (int i = 0; i < 64; i++)
          c->res[k][i] = (char) ('0' + bv[i]);
        c->res[k][64] = 0;
        c->isnull[k] = 0;
        return;
      }
    case O_R: r = crypt_r (P, o->setting, c->obj); break;
    case O_RA: r = crypt_ra (P, o->setting, &c->ra, &c->ra_size); break;
    case O_GENSALT_RN: r = crypt_gensalt_rn (o->setting, o->count, (const char *) c->rb, 16 + 16 * (c->id & 1), c->gbuf, CRYPT_GENSALT_OUTPUT_SIZE); break;
    case O_GENSALT_RN_NULL: r = crypt_gensalt_rn (o->setting, o->count, 0, 0, c->gbuf, CRYPT_GENSALT_OUTPUT_SIZE); break;
    case O_GENSALT_RA:
      {
        char *g = crypt_gensalt_ra (o->setting, o->count, (const char *) c->rb, 16 + 16 * (c->id & 1));
        if (g)
          {
            snprintf (c->res[k], CRYPT_OUTPUT_SIZE, "%s", g);
            free (g);
            c->isnull[k] = 0;
          }
        else
          c->isnull[k] = 1;
        return;
      }
    case O_CHECKSALT:
      snprintf (c->res[k], CRYPT_OUTPUT_SIZE, "%d", crypt_checksalt (o->setting));
      c->isnull[k] = 0;
      return;
    case O_PREFERRED:
      r = (char *) crypt_preferred_method ();
      break;
    case O_CRYPT_STATIC: r = crypt (P, o->setting); break;
    case O_GENSALT_STATIC: r = crypt_gensalt (o->setting, o->count, (const char *) c->rb, 16); break;
    }
  c->isnull[k] = r == 0;
  snprintf (c->res[k], CRYPT_OUTPUT_SIZE, "%s", r ? r : "");
}

/* entropy seam per logical thread (vh_rt's arc4random_buf calls this through vh_ent_fill with the shared counter;
   record what each thread got so its result can be re-derived) */
static int cur_opk[MAXT];

static void *
worker (void *arg)
{
  struct tctx *c = arg;
  my_tid = c->id;
  sem_wait (&sem[c->id]);
  cur = c->id;
  for (int k = 0; k < c->nops; k++)
    {
      cur_opk[c->id] = k;
      /* operation boundaries: the start of a thread's first operation coincides with the choice of which thread
         runs first, the end of its last one with the choice made when it finishes; one point between operations */
      if (k > 0)
        sched_point (PT_START);
      long e0 = vh_ent_calls;
      run_op (c, k);
      if (vh_ent_calls != e0)
        {
          c->entn[k] = (int) vh_ent_last_n;
          memcpy (c->ent[k], vh_ent_last, vh_ent_last_n < 64 ? vh_ent_last_n : 64);
        }
    }
  finished[c->id] = 1;
  int next = choose (c->id, PT_END);
  cur = next;
  if (next >= 0)
    sem_post (&sem[next]);
  else
    sem_post (&sem_main);
  return 0;
}

/* one execution under the choice prefix; returns number of points */
static void
execute (const unsigned char *pfx, int plen)
{
  pthread_t th[MAXT];
  prefix = pfx;
  prefix_len = plen;
  npts = 0;
  horizon_hit = 0;
  n_shared_writes = n_shared_reads = n_foreign = n_races = 0;
  n_mapviol = 0;
  nmaps = 0;
  race_desc[0] = 0;
  {
    size_t o = 0;
    for (int i = 0; i < vh_nimg; i++)
      {
        memcpy (vh_img[i].p, img_pristine + o, vh_img[i].n);
        o += vh_img[i].n;
      }
  }
  memset (sh_writer, -1, vh_img_total);
  memset (sh_readers, 0, vh_img_total);
  vh_ent_counter = 1000;
  for (int t = 0; t < nthreads; t++)
    {
      finished[t] = 0;
      sem_init (&sem[t], 0, 0);
      memset (T[t].obj, 0, sizeof *T[t].obj);
      T[t].entn[0] = T[t].entn[1] = 0;
    }
  sem_init (&sem_main, 0, 0);
  for (int t = 0; t < nthreads; t++)
    pthread_create (&th[t], 0, worker, &T[t]);
  tracking = 1;
  int first = choose (-1, PT_START);
  cur = first;
  sem_post (&sem[first]);
  sem_wait (&sem_main);
  tracking = 0;
  cur = -1;
  for (int t = 0; t < nthreads; t++)
    pthread_join (th[t], 0);
}

/* ---- explorer ------------------------------------------------------------------- */
static char solo[96][MAXT][CRYPT_OUTPUT_SIZE];
static int solo_null[96][MAXT];
static long schedules, max_points, configs_with_shared_writes;
static char cj[900];

static int
preemptions_before (int i)
{
  int c = 0;
  for (int k = 0; k < i; k++)
    if (pts[k].running && pts[k].chosen != 0)
      c++;
  return c;
}

/* verify the outcome of the execution just made; returns 1 on violation */
static int
verify (const char *cfg, int canary)
{
  char sig[200], sch[200] = "";
  for (int i = 0; i < npts && i < 60; i++)
    snprintf (sch + strlen (sch), sizeof sch - strlen (sch), "%d", pts[i].chosen);
  snprintf (cj, sizeof cj, "{\"config\":\"%s\",\"schedule\":\"%s\",\"points\":%d,\"shared_writes\":%ld,\"shared_reads\":%ld", cfg, sch, npts, n_shared_writes, n_shared_reads);
  if (n_races || n_foreign || n_mapviol)
    {
      if (canary)
        return 1;
      snprintf (sig, sizeof sig, "%s/%s", n_races ? "data-race-on-library-static" : n_foreign ? "access-to-another-threads-object" : "unmaps-address-range-it-did-not-map", cfg);
      vh_viol (sig, "%s,\"detail\":\"%s\",\"replay\":\"%s\"}", cj, race_desc, cfg);
      return 1;
    }
  for (int t = 0; t < nthreads; t++)
    for (int k = 0; k < T[t].nops; k++)
      {
        int oi = T[t].op[k];
        const char *want = solo[oi][t];
        int wnull = solo_null[oi][t];
        char tmp[CRYPT_GENSALT_OUTPUT_SIZE];
        if (ops[oi].kind == O_GENSALT_RN_NULL)
          {
            /* entropy came from the OS seam: re-derive the expected setting from the bytes this call was given */
            char *g = crypt_gensalt_rn (ops[oi].setting, ops[oi].count, (const char *) T[t].ent[k], T[t].entn[k], tmp, sizeof tmp);
            want = g ? tmp : "";
            wnull = g == 0;
          }
        if (T[t].isnull[k] != wnull || strcmp (T[t].res[k], want))
          {
            if (canary)
              return 1;
            snprintf (sig, sizeof sig, "result-differs-from-solo/%s", ops[oi].name);
            vh_viol (sig, "%s,\"thread\":%d,\"op\":\"%s\",\"result\":%s,\"alone\":%s,\"replay\":\"%s\"}", cj, t, ops[oi].name,
                     T[t].isnull[k] ? "null" : vh_jstr (T[t].res[k]), wnull ? "null" : vh_jstr (want), cfg);
            return 1;
          }
      }
  return 0;
}

/* explore all schedules of the current configuration with at most BOUND preemptions; returns violations found */
static int
explore (const char *cfg, int bound, int canary, long max_schedules)
{
  /* iterative DFS over choice prefixes */
  static unsigned char stack[20000][64];
  static int slen[20000];
  int sp = 0, found = 0;
  long nsched = 0;
  slen[0] = 0;
  sp = 1;
  while (sp > 0 && nsched < max_schedules)
    {
      sp--;
      unsigned char pfx[64];
      int pl = slen[sp];
      memcpy (pfx, stack[sp], (size_t) pl);
      execute (pfx, pl);
      nsched++;
      schedules++;
      vh_stat ("schedules", 1);
      vh_stat ("evaluations", 1);
      if (npts > max_points)
        max_points = npts;
      if (verify (cfg, canary))
        {
          found++;
          if (!canary)
            return found;
          if (found >= 2)
            return found;
        }
      /* alternatives after the replayed prefix; branching only within the first 60 points (horizon) */
      int lim = npts < 60 ? npts : 60;
      for (int i = pl; i < lim; i++)
        {
          int cost = preemptions_before (i);
          for (int alt = 1; alt < pts[i].nenabled; alt++)
            {
              int c = cost + (pts[i].running ? 1 : 0);
              if (c > bound)
                continue;
              if (sp >= 20000)
                vh_internal ("explorer stack overflow");
              for (int k = 0; k < i; k++)
                stack[sp][k] = pts[k].chosen;
              stack[sp][i] = (unsigned char) alt;
              slen[sp] = i + 1;
              sp++;
            }
        }
      if (npts > 60)
        vh_stat ("horizon_capped_executions", 1);
    }
  if (sp > 0 && !canary)
    vh_stat ("configurations_with_schedule_cap_hit", 1);      /* only trees with shared accesses get here: more than 400 schedules within the bound */
  return found;
}

/* ---- libc functions with hidden static state ---------------------------------------------------------------------
   glibc keeps these buffers inside libc, which is neither instrumented nor part of the library image, so a call from two
   threads would go unseen.  They are modelled here (same results as glibc where the result is defined; the generators only
   need to be deterministic, because the "alone" reference runs under the same model) with their state placed in
   libc_hidden, which main() registers as one more range of the shared image: accesses are scheduling points and take part
   in race detection exactly like the library's own statics.  The executable's definitions win symbol resolution. */
#include <time.h>
static struct
{
  char l64a_buf[8];
  char *strtok_save;
  unsigned long rand_state;
  struct tm tm;
} libc_hidden;

static int
hidden_libc_state (const void *a)
{
  return (const unsigned char *) a >= (const unsigned char *) &libc_hidden && (const unsigned char *) a < (const unsigned char *) &libc_hidden + sizeof libc_hidden;
}

char *l64a (long n);
char *
l64a (long n)
{
  static const char tbl[] = "./0123456789ABCDEFGHIJKLMNOPQRSTUVWXYZabcdefghijklmnopqrstuvwxyz";
  unsigned long v = (unsigned long) n & 0xffffffffUL;
  char tmp[8];
  size_t i = 0;
  for (; v && i < 6; v >>= 6)
    tmp[i++] = tbl[v & 63];
  tmp[i] = 0;
  memcpy (libc_hidden.l64a_buf, tmp, i + 1);
  return libc_hidden.l64a_buf;
}

char *strtok (char *s, const char *delim);
char *
strtok (char *s, const char *delim)
{
  if (!s)
    {
      access_hook (&libc_hidden.strtok_save, sizeof (char *), 0);
      s = libc_hidden.strtok_save;
    }
  if (!s)
    return 0;
  while (*s && strchr (delim, *s))
    s++;
  char *tok = *s ? s : 0;
  while (*s && !strchr (delim, *s))
    s++;
  if (*s)
    {
      access_hook (s, 1, 1);
      *s++ = 0;
    }
  access_hook (&libc_hidden.strtok_save, sizeof (char *), 1);
  libc_hidden.strtok_save = tok ? s : 0;
  return tok;
}

static unsigned long
hidden_prng_step (void)
{
  access_hook (&libc_hidden.rand_state, sizeof libc_hidden.rand_state, 0);
  unsigned long x = libc_hidden.rand_state * 6364136223846793005UL + 1442695040888963407UL;
  access_hook (&libc_hidden.rand_state, sizeof libc_hidden.rand_state, 1);
  libc_hidden.rand_state = x;
  return x >> 33;
}

static void
hidden_prng_seed (unsigned long v)
{
  access_hook (&libc_hidden.rand_state, sizeof libc_hidden.rand_state, 1);
  libc_hidden.rand_state = v;
}
int rand (void);
int rand (void) { return (int) (hidden_prng_step () & 0x7fffffff); }
void srand (unsigned v);
void srand (unsigned v) { hidden_prng_seed (v); }
long random (void);
long random (void) { return (long) (hidden_prng_step () & 0x7fffffff); }
void srandom (unsigned v);
void srandom (unsigned v) { hidden_prng_seed (v); }
long lrand48 (void);
long lrand48 (void) { return (long) (hidden_prng_step () & 0x7fffffff); }
long mrand48 (void);
long mrand48 (void) { return (long) (int) (hidden_prng_step () & 0xffffffff); }
double drand48 (void);
double drand48 (void) { return (double) (hidden_prng_step () & 0x7fffffff) / 2147483648.0; }
void srand48 (long v);
void srand48 (long v) { hidden_prng_seed ((unsigned long) v); }

struct tm *gmtime (const time_t *t);
struct tm *
gmtime (const time_t *t)
{
  struct tm tmp;
  if (!gmtime_r (t, &tmp))
    return 0;
  memcpy (&libc_hidden.tm, &tmp, sizeof tmp);
  return &libc_hidden.tm;
}

struct tm *localtime (const time_t *t);
struct tm *
localtime (const time_t *t)
{
  struct tm tmp;
  if (!localtime_r (t, &tmp))
    return 0;
  memcpy (&libc_hidden.tm, &tmp, sizeof tmp);
  return &libc_hidden.tm;
}

static void
mkops (void)
{
#ifdef VH_C17_SCHED
  /* C17's schedule job: the alphabet is the obsolete re-entrant DES pair (encrypt, decrypt) next to the DES-based hashes */
  ops[nops++] = (struct opdef) { O_DES_R, M_DES, 0, 0, "setkey_r;encrypt_r(own object, encrypt)" };
  ops[nops++] = (struct opdef) { O_DES_R, M_DES, 0, 1, "setkey_r;encrypt_r(own object, decrypt)" };
  ops[nops++] = (struct opdef) { O_RN, M_DES, vh_cheap[M_DES][0], 0, "crypt_rn(descrypt)" };
  ops[nops++] = (struct opdef) { O_RN, M_BIG, vh_cheap[M_BIG][0], 0, "crypt_rn(bigcrypt)" };
  ops[nops++] = (struct opdef) { O_RN, M_BSDI, vh_cheap[M_BSDI][0], 0, "crypt_rn(bsdicrypt)" };
  ops[nops++] = (struct opdef) { O_GENSALT_RN, -1, "_", 0, "crypt_gensalt_rn(_)" };
  ncanary0 = nops;
  ops[nops++] = (struct opdef) { O_CRYPT_STATIC, M_MD5, vh_cheap[M_MD5][0], 0, "crypt(md5crypt) [MT-unsafe canary]" };
  ops[nops++] = (struct opdef) { O_GENSALT_STATIC, -1, "$1$", 0, "crypt_gensalt($1$) [MT-unsafe canary]" };
  return;
#endif
  for (int m = 0; m < M_COUNT; m++)
    {
      ops[nops] = (struct opdef) { O_RN, m, (m == M_YESCRYPT || m == M_GOST || m == M_SCRYPT) ? vh_cheap[m][1] : vh_cheap[m][0], 0, "" };
      snprintf (ops[nops].name, sizeof ops[nops].name, "crypt_rn(%s)", vh_methods[m].name);
      nops++;
    }
  ops[nops] = (struct opdef) { O_R, M_MD5, vh_cheap[M_MD5][0], 0, "crypt_r(md5crypt)" };
  nops++;
  ops[nops] = (struct opdef) { O_RA, M_SHA256, vh_cheap[M_SHA256][0], 0, "crypt_ra(sha256crypt)" };
  nops++;
  static const char *const gp[] = { "$y$", "$gy$", "$7$", "$2b$", "$2y$", "$2a$", "$6$", "$5$", "$sha1", "$md5", "$1$", "$3$", "_", "" };
  for (unsigned g = 0; g < sizeof gp / sizeof *gp; g++)
    {
      ops[nops] = (struct opdef) { O_GENSALT_RN, -1, gp[g], 0, "" };
      snprintf (ops[nops].name, sizeof ops[nops].name, "crypt_gensalt_rn(%s)", gp[g]);
      nops++;
    }
  ops[nops] = (struct opdef) { O_GENSALT_RN, -1, "$y$", 3, "crypt_gensalt_rn($y$,count=3)" };
  nops++;
  ops[nops] = (struct opdef) { O_GENSALT_RN, -1, 0, 0, "crypt_gensalt_rn(NULL prefix)" };
  nops++;
  ops[nops] = (struct opdef) { O_GENSALT_RN_NULL, -1, "$6$", 0, "crypt_gensalt_rn($6$,rbytes=NULL)" };
  nops++;
  ops[nops] = (struct opdef) { O_GENSALT_RN_NULL, -1, "$y$", 0, "crypt_gensalt_rn($y$,rbytes=NULL)" };
  nops++;
  ops[nops] = (struct opdef) { O_GENSALT_RA, -1, "$2b$", 0, "crypt_gensalt_ra($2b$)" };
  nops++;
  ops[nops] = (struct opdef) { O_GENSALT_RA, -1, "$gy$", 0, "crypt_gensalt_ra($gy$)" };
  nops++;
  ops[nops] = (struct opdef) { O_CHECKSALT, -1, "$y$j9T$salt", 0, "crypt_checksalt($y$)" };
  nops++;
  ops[nops] = (struct opdef) { O_PREFERRED, -1, 0, 0, "crypt_preferred_method()" };
  nops++;
  {
    static const int lm[] = { M_YESCRYPT, M_GOST, M_SCRYPT, M_SHA1, M_BCRYPT_B, M_SHA512, M_BIG };
    for (unsigned i = 0; i < sizeof lm / sizeof *lm; i++)
      {
        int m = lm[i];
        ops[nops] = (struct opdef) { O_RN_LONG, m, (m == M_YESCRYPT || m == M_GOST || m == M_SCRYPT) ? vh_cheap[m][1] : vh_cheap[m][0], 0, "" };
        snprintf (ops[nops].name, sizeof ops[nops].name, "crypt_rn(%s, 100..166-byte phrase)", vh_methods[m].name);
        nops++;
      }
  }
  if (vh_thorough)
    {
      /* a working area of 32 MiB: the only size class with its own mapping strategy (huge-page attempt, fallback) */
      ops[nops] = (struct opdef) { O_RN, M_YESCRYPT, "$y$jC5$saltSALTsalt", 0, "crypt_rn(yescrypt, 32 MiB)" };
      nops++;
    }
  ncanary0 = nops;
  /* documented MT-unsafe interfaces: the canary that shows the explorer can see the opposite */
  ops[nops] = (struct opdef) { O_CRYPT_STATIC, M_MD5, vh_cheap[M_MD5][0], 0, "crypt(md5crypt) [MT-unsafe canary]" };
  nops++;
  ops[nops] = (struct opdef) { O_GENSALT_STATIC, -1, "$1$", 0, "crypt_gensalt($1$) [MT-unsafe canary]" };
  nops++;
}

static void
config (int nt, const int (*opsel)[2], const int *nop, const char *cfg, int canary)
{
  nthreads = nt;
  for (int t = 0; t < nt; t++)
    {
      T[t].nops = nop[t];
      T[t].op[0] = opsel[t][0];
      T[t].op[1] = opsel[t][1];
    }
  memset (ever_written, 0, vh_img_total);
  int found = 0;
  /* bound 0 first (serial orders: the simplest counterexamples), then the full bound-2 space */
  for (int b = 0; b <= 2 && !found; b += 2)
    {
      long before = schedules;
      found += explore (cfg, b, canary, canary ? 300 : 400);
      if (b == 2)
        vh_stat ("schedules_at_bound_2", schedules - before);
    }
  vh_stat ("configurations", 1);
  if (n_shared_writes)
    configs_with_shared_writes++;
  if (canary)
    {
      vh_stat ("canary_runs", 1);
      if (found)
        vh_stat ("canary_detected", 1);
    }
}

int
main (int argc, char **argv)
{
  vh_init (argc, argv);
  vh_mmap_cap = (size_t) 64 << 20;
  vh_on_map = on_map;
  vh_img_find ();
  if (vh_nimg && vh_nimg < 8)
    {
      /* the modelled hidden state of libc belongs to the state shared between threads */
      vh_img[vh_nimg].p = (unsigned char *) &libc_hidden;
      vh_img[vh_nimg].n = sizeof libc_hidden;
      vh_img_total += sizeof libc_hidden;
      vh_nimg++;
    }
  if (!vh_nimg)
    vh_internal ("library image not found");
  sh_writer = malloc (vh_img_total);
  sh_readers = malloc (vh_img_total);
  ever_written = calloc (1, vh_img_total);
  /* the library's writable image as loaded, before any library call: every execution starts from it, so that whatever the
     library initialises lazily on first use is initialised again, concurrently, in every explored schedule */
  img_pristine = malloc (vh_img_total);
  {
    size_t o = 0;
    for (int i = 0; i < vh_nimg; i++)
      {
        memcpy (img_pristine + o, vh_img[i].p, vh_img[i].n);
        o += vh_img[i].n;
      }
  }
  /* (3) the library imports no synchronisation or hidden-state libc symbol: the point set above is complete */
  {
    Dl_info li;
    if (!dladdr ((void *) crypt_rn, &li) || !strstr (li.dli_fname, "libxc.so"))
      vh_internal ("crypt_rn does not resolve to the hooked library");
    char cmd[600];
    snprintf (cmd, sizeof cmd, "nm -D --undefined-only '%s' | awk '{print $NF}' | sed 's/@.*//'", li.dli_fname);
    FILE *f = popen (cmd, "r");
    char sym[200];
    static const char *const known[] = { "__assert_fail", "__errno_location", "arc4random_buf", "explicit_bzero", "free", "malloc", "realloc", "memcmp", "memcpy",
      "memmove", "memset", "mmap", "munmap", "snprintf", "strchr", "strcspn", "strlen", "strncmp", "strrchr", "strspn", "strtoul", "__cxa_finalize",
      "_ITM_deregisterTMCloneTable", "_ITM_registerTMCloneTable", "__gmon_start__", "__stack_chk_fail", "abort", "calloc", "strcmp", "strcpy", "memchr", "strnlen",
      "madvise", "strncpy", "strcat", "strncat", "memrchr", "strstr", "strtol", "strtoull", "strtoll", "getrandom", "getentropy", "a64l",
      /* hidden static state, modelled above */
      "l64a", "strtok", "rand", "srand", "random", "srandom", "lrand48", "mrand48", "drand48", "srand48", "gmtime", "localtime", 0
    };
    /* functions POSIX marks as not thread-safe for which there is no model: their state would be invisible */
    static const char *const unsafe[] = { "getpwnam", "getpwuid", "getgrnam", "getgrgid", "getspnam", "readdir", "ttyname", "getlogin", "ptsname", "setlocale", "ecvt", "fcvt",
      "gcvt", "tmpnam", "inet_ntoa", "strsignal", "ctime", "asctime", "getpass", "crypt", "crypt_gensalt", "setkey", "encrypt", "dirname", "basename", "hcreate", "hsearch",
      "mblen", "mbtowc", "wctomb", "nl_langinfo", "getdate", "erand48", "jrand48", "nrand48", "lcong48", "seed48", "initstate", "setstate", "getopt",
      "gethostbyname", "gethostbyaddr", "getservbyname", "getprotobyname", "getnetbyname", "getutent", "getutid", "getutline", "lgamma", "catgets", "localeconv", "wcstombs",
      "wcrtomb", "mbrtowc", "mbrlen", "mbsrtowcs", "wcsrtombs", "tempnam", "fgetgrent", "fgetpwent", "getmntent", "gamma", 0
    };
    while (f && fgets (sym, sizeof sym, f))
      {
        sym[strcspn (sym, "\n")] = 0;
        if (!*sym || !strncmp (sym, "__tsan_", 7))
          continue;
        int ok = 0;
        for (int i = 0; known[i]; i++)
          if (!strcmp (known[i], sym))
            ok = 1;
        /* synchronisation primitives and thread-local storage would need their own scheduling points: refuse to judge.  Any
           other new import is recorded as an assumption (treated as a pure function of its arguments) and the run goes on */
        for (int i = 0; !ok && unsafe[i]; i++)
          if (!strcmp (unsafe[i], sym))
            vh_internal ("the library imports '%s', which keeps hidden static state inside libc and has no model here", sym);
        if (!ok && (!strncmp (sym, "pthread_", 8) || !strncmp (sym, "sem_", 4) || !strncmp (sym, "__tls", 5) || !strncmp (sym, "mtx_", 4) || !strncmp (sym, "cnd_", 4) || !strncmp (sym, "call_once", 9)))
          vh_internal ("the library imports '%s', which this scheduler does not model (synchronisation or hidden libc state)", sym);
        if (!ok)
          {
            vh_stat ("unmodelled_imports", 1);
            vh_sample ("{\"unmodelled_import\":\"%s\",\"treated_as\":\"a function without state shared between threads\"}", sym);
          }
      }
    if (f)
      pclose (f);
  }
  {
    Dl_info li;
    void *lh = dladdr ((void *) crypt_rn, &li) ? dlopen (li.dli_fname, RTLD_NOW | RTLD_NOLOAD) : 0;
    p_setkey_r = lh ? (void (*)(const char *, struct crypt_data *)) dlvsym (lh, "setkey_r", "GLIBC_2.2.5") : 0;
    p_encrypt_r = lh ? (void (*)(char *, int, struct crypt_data *)) dlvsym (lh, "encrypt_r", "GLIBC_2.2.5") : 0;
#ifdef VH_C17_SCHED
    if (!p_setkey_r || !p_encrypt_r)
      vh_internal ("obsolete DES API not exported by the library build");
#endif
  }
  mkops ();
  for (int t = 0; t < MAXT; t++)
    {
      T[t].id = t;
      T[t].obj = aligned_alloc (64, sizeof (struct crypt_data));
      T[t].gbuf = malloc (CRYPT_GENSALT_OUTPUT_SIZE);
      T[t].rb = malloc (64);
      for (int i = 0; i < 64; i++)
        T[t].rb[i] = (unsigned char) (t * 83 + i * 7 + 1);
      T[t].ra = 0;
      T[t].ra_size = 0;
      npriv[t] = 0;
      priv[t][npriv[t]++] = (struct region) { (unsigned char *) T[t].obj, sizeof (struct crypt_data) };
      priv[t][npriv[t]++] = (struct region) { (unsigned char *) T[t].gbuf, CRYPT_GENSALT_OUTPUT_SIZE };
      priv[t][npriv[t]++] = (struct region) { T[t].rb, 64 };
    }
  /* solo results: each op alone on each thread's objects (no tracking) */
  for (int oi = 0; oi < nops; oi++)
    for (int t = 0; t < MAXT; t++)
      {
        T[t].op[0] = oi;
        vh_ent_counter = 1000;
        run_op (&T[t], 0);
        snprintf (solo[oi][t], CRYPT_OUTPUT_SIZE, "%s", T[t].res[0]);
        solo_null[oi][t] = T[t].isnull[0];
      }
  for (int t = 0; t < MAXT; t++)
    if (T[t].ra)
      priv[t][npriv[t]++] = (struct region) { T[t].ra, (size_t) T[t].ra_size };
  int one[MAXT] = { 1, 1, 1 }, two[MAXT] = { 2, 2, 2 };
  char cfg[200];
  if (vh_replay && *vh_replay)
    {
      int a, b, c, d, n;
      int sel[MAXT][2] = { {0, 0}, {0, 0}, {0, 0} };
      if (sscanf (vh_replay, "2x1:%d:%d", &a, &b) == 2)
        {
          sel[0][0] = a;
          sel[1][0] = b;
          config (2, sel, one, vh_replay, 0);
        }
      else if (sscanf (vh_replay, "2x2:%d:%d:%d:%d", &a, &b, &c, &d) == 4)
        {
          sel[0][0] = a;
          sel[0][1] = b;
          sel[1][0] = c;
          sel[1][1] = d;
          config (2, sel, two, vh_replay, 0);
        }
      else if (sscanf (vh_replay, "3x2:%d:%d:%d", &a, &b, &n) == 3)
        {
          sel[0][0] = a; sel[0][1] = b; sel[1][0] = b; sel[1][1] = n; sel[2][0] = n; sel[2][1] = a;
          config (3, sel, two, vh_replay, 0);
        }
      else if (sscanf (vh_replay, "3x1:%d:%d:%d", &a, &b, &n) == 3)
        {
          sel[0][0] = a;
          sel[1][0] = b;
          sel[2][0] = n;
          config (3, sel, one, vh_replay, 0);
        }
      else
        vh_internal ("bad replay token");
      vh_done ();
      return 0;
    }
  uint64_t idx = 0;
  /* canaries first (every shard runs them: a blind instrument must not report success) */
  {
    int sel[MAXT][2] = { {ncanary0, 0}, {ncanary0, 0}, {0, 0} };
    config (2, sel, one, "canary:crypt x crypt", 1);
    int sel2[MAXT][2] = { {ncanary0 + 1, 0}, {ncanary0 + 1, 0}, {0, 0} };
    config (2, sel2, one, "canary:crypt_gensalt x crypt_gensalt", 1);
  }
  /* all ordered pairs, 2 threads x 1 op */
  for (int a = 0; a < ncanary0 && !vh_expired (); a++)
    for (int b = 0; b < ncanary0; b++)
      if (vh_mine (idx++))
        {
          int sel[MAXT][2] = { {a, 0}, {b, 0}, {0, 0} };
          snprintf (cfg, sizeof cfg, "2x1:%d:%d", a, b);
          config (2, sel, one, cfg, 0);
          if ((a * 131 + b) % 397 == 0)
            vh_sample ("{\"config\":\"%s\",\"threads\":[\"%s\",\"%s\"],\"preemption_bounds\":[0,1,2],\"scheduling_points\":%ld}", cfg, ops[a].name, ops[b].name, max_points);
        }
  /* 2 threads x 2 ops: same-method pairs and neighbours */
  for (int a = 0; a < ncanary0 && !vh_expired (); a++)
    {
      int bs[3] = { a, (a + 1) % ncanary0, (a + 17) % ncanary0 };
      for (int q = 0; q < (vh_thorough ? 3 : 1); q++)
        if (vh_mine (idx++))
          {
            int sel[MAXT][2] = { {a, bs[q]}, {bs[q], a}, {0, 0} };
            snprintf (cfg, sizeof cfg, "2x2:%d:%d:%d:%d", a, bs[q], bs[q], a);
            config (2, sel, two, cfg, 0);
          }
    }
  /* 3 threads x 1 op over a sub-alphabet */
  {
    static const int sub[] = { 0, 2, 3, 7, 9, 11, 12, 15, 18, 25, 34, 36 };
    int ns = vh_thorough ? 12 : 6;
    for (int a = 0; a < ns && !vh_expired (); a++)
      for (int b = 0; b < ns; b++)
        for (int c = 0; c < ns; c++)
          if (vh_mine (idx++))
            {
              int sel[MAXT][2] = { {sub[a] % ncanary0, 0}, {sub[b] % ncanary0, 0}, {sub[c] % ncanary0, 0} };
              snprintf (cfg, sizeof cfg, "3x1:%d:%d:%d", sel[0][0], sel[1][0], sel[2][0]);
              config (3, sel, one, cfg, 0);
            }
  }
  if (vh_thorough)
    {
      /* 3 threads x 2 operations each, rotated over a 5-operation alphabet; and 2 x 2 over all pairs of a 16-operation alphabet */
      static const int s5[] = { 11, 18, 17, 34, 38 };
      for (int a = 0; a < 5 && !vh_expired (); a++)
        for (int b = 0; b < 5; b++)
          for (int c = 0; c < 5; c++)
            if (vh_mine (idx++))
              {
                int sel[MAXT][2] = { {s5[a] % ncanary0, s5[b] % ncanary0}, {s5[b] % ncanary0, s5[c] % ncanary0}, {s5[c] % ncanary0, s5[a] % ncanary0} };
                snprintf (cfg, sizeof cfg, "3x2:%d:%d:%d", sel[0][0], sel[1][0], sel[2][0]);
                config (3, sel, two, cfg, 0);
              }
      for (int a = 0; a < 32 && !vh_expired (); a += 2)
        for (int b = 1; b < 32; b += 2)
          if (a < ncanary0 && b < ncanary0 && vh_mine (idx++))
            {
              int sel[MAXT][2] = { {a, b}, {b, a}, {0, 0} };
              snprintf (cfg, sizeof cfg, "2x2:%d:%d:%d:%d", a, b, b, a);
              config (2, sel, two, cfg, 0);
            }
    }
  vh_statmax ("max_points_per_execution", max_points);
  vh_stat ("configurations_with_shared_writes", configs_with_shared_writes);
  vh_done ();
  return 0;
}
