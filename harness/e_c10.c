/* C10: every setting crypt_gensalt* produces is accepted by crypt and kept in the hash. */
#include "vh_rt.h"
#include "vh_methods.h"
#include <crypt.h>
#include <limits.h>
#include <stdlib.h>

static const int nrb_list[] = { 0, 1, 2, 3, 4, 5, 6, 7, 8, 9, 10, 11, 12, 13, 14, 15, 16, 17, 18, 19, 20, 21, 22, 23, 24, 25,
  26, 27, 28, 29, 30, 31, 32, 33, 34, 35, 36, 37, 38, 39, 40, 41, 42, 43, 44, 45, 46, 47, 48, 49, 50, 51, 52, 53, 54, 55,
  56, 57, 58, 59, 60, 61, 62, 63, 64, 65, 66, 67, 68, 69, 70, 128, 255, 256,
  /* the rest of 0..256 (appended so that earlier replay tokens keep their meaning); quick uses every 5th of these plus 129..200 */
  71, 72, 73, 74, 75, 76, 77, 78, 79, 80, 81, 82, 83, 84, 85, 86, 87, 88, 89, 90, 91, 92, 93, 94, 95, 96, 97, 98, 99, 100, 101, 102, 103, 104, 105,
  106, 107, 108, 109, 110, 111, 112, 113, 114, 115, 116, 117, 118, 119, 120, 121, 122, 123, 124, 125, 126, 127, 129, 130, 131, 132, 133, 134, 135,
  136, 137, 138, 139, 140, 141, 142, 143, 144, 145, 146, 147, 148, 149, 150, 151, 152, 153, 154, 155, 156, 157, 158, 159, 160, 161, 162, 163, 164,
  165, 166, 167, 168, 169, 170, 171, 172, 173, 174, 175, 176, 177, 178, 179, 180, 181, 182, 183, 184, 185, 186, 187, 188, 189, 190, 191, 192, 193,
  194, 195, 196, 197, 198, 199, 200, 201, 202, 203, 204, 205, 206, 207, 208, 209, 210, 211, 212, 213, 214, 215, 216, 217, 218, 219, 220, 221, 222,
  223, 224, 225, 226, 227, 228, 229, 230, 231, 232, 233, 234, 235, 236, 237, 238, 239, 240, 241, 242, 243, 244, 245, 246, 247, 248, 249, 250, 251,
  252, 253, 254 };
#define NNRB ((int) (sizeof nrb_list / sizeof *nrb_list))
#define NNRB_OLD 74

/* prefix arguments: 16 tags, NULL, a full hash of each method, a bare setting of each */
#define NPREF (M_COUNT + 1 + 2 * M_COUNT)
static char pref_store[NPREF][CRYPT_OUTPUT_SIZE];
static const char *pref[NPREF];
static int pref_method[NPREF];

static const char *const tagarg[M_COUNT] = { "$y$", "$gy$", "$7$", "$2b$", "$2y$", "$2a$", "$2x$", "$6$", "$5$", "$sha1", "$md5",
  "$1$", "$3$", "_", "", "Az" };

struct cnt { unsigned long c; int hash_quick, hash_thorough; };
#define MAXC 40
static struct cnt counts[M_COUNT][MAXC];
static int ncounts[M_COUNT];

static void
addcnt (int m, unsigned long c, int hq, int ht)
{
  counts[m][ncounts[m]++] = (struct cnt) { c, hq, ht };
}

static void
setup (void)
{
  struct crypt_data *d = calloc (1, sizeof *d);
  int n = 0;
  for (int m = 0; m < M_COUNT; m++)
    {
      pref[n] = tagarg[m];
      pref_method[n++] = m;
    }
  pref[n] = 0;
  pref_method[n++] = M_YESCRYPT;        /* NULL selects the preferred method ($y$ per crypt.5) */
  for (int m = 0; m < M_COUNT; m++)
    {
      char *h = crypt_rn ("pw", vh_cheap[m][0], d, sizeof *d);
      if (!h)
        vh_internal ("setup: cannot hash with %s", vh_cheap[m][0]);
      strcpy (pref_store[n], h);
      pref[n] = pref_store[n];
      pref_method[n++] = m;
      pref[n] = vh_cheap[m][1];
      pref_method[n++] = m;
    }
  free (d);
  for (int m = 0; m < M_COUNT; m++)
    {
      addcnt (m, 0, 1, 1);
      switch (m)
        {
        case M_YESCRYPT:
        case M_GOST:
          for (unsigned long c = 1; c <= 11; c++)
            addcnt (m, c, c <= 6, c <= 9);      /* 32 MiB quick, 256 MiB thorough */
          counts[m][0].hash_quick = 1;  /* default 5 = 16 MiB */
          break;
        case M_SCRYPT:
          for (unsigned long c = 6; c <= 11; c++)
            addcnt (m, c, c <= 6, c <= 9);
          counts[m][0].hash_quick = 0;  /* default 7 = 64 MiB */
          break;
        case M_BCRYPT_A:
        case M_BCRYPT_B:
        case M_BCRYPT_Y:
          for (unsigned long c = 4; c <= 31; c++)
            addcnt (m, c, c <= 6, c <= 8);
          break;
        case M_SHA256:
        case M_SHA512:
          {
            static const unsigned long v[] = { 1, 999, 1000, 1001, 4999, 5000, 5001, 9999, 10000, 20000, 99999, 100000, 999999999,
              1000000000, ULONG_MAX
            };
            for (unsigned i = 0; i < sizeof v / sizeof *v; i++)
              addcnt (m, v[i], v[i] <= 20000, v[i] <= 20000);
            break;
          }
        case M_SHA1:
          {
            static const unsigned long v[] = { 1, 4, 5, 100, 1000, 20000, 262144, 4294967295UL, ULONG_MAX };
            for (unsigned i = 0; i < sizeof v / sizeof *v; i++)
              addcnt (m, v[i], v[i] <= 20000, v[i] <= 262144);
            counts[m][0].hash_quick = 0;        /* default 262144 */
            break;
          }
        case M_SUNMD5:
          {
            static const unsigned long v[] = { 1, 32768, 40000, 100000, 4294901759UL, ULONG_MAX };
            for (unsigned i = 0; i < sizeof v / sizeof *v; i++)
              addcnt (m, v[i], 0, v[i] <= 100000);
            break;
          }
        case M_BSDI:
          {
            static const unsigned long v[] = { 1, 2, 725, 4095, 16384, 16777215, 16777216, ULONG_MAX };
            for (unsigned i = 0; i < sizeof v / sizeof *v; i++)
              addcnt (m, v[i], v[i] <= 16384, v[i] <= 16384);
            break;
          }
        }
    }
}

static int
passwd_safe (const char *s)
{
  for (; *s; s++)
    if ((unsigned char) *s <= 0x20 || (unsigned char) *s >= 0x7f || strchr (":;*!\\", *s))
      return 0;
  return 1;
}

static int
begins_with_tag (int m, const char *s)
{
  if (m == M_DES || m == M_BIG)
    return strlen (s) >= 2 && strchr (A64, s[0]) && strchr (A64, s[1]);
  return !strncmp (s, vh_methods[m].tag, strlen (vh_methods[m].tag));
}

static char cj[1200];
static struct crypt_data *cd;

static void
one (int pi, int ci, int ni, int fill, int do_hash)
{
  int m = pref_method[pi];
  unsigned long count = counts[m][ci].c;
  int nrb = nrb_list[ni];
  unsigned char rb[257], rb2[257];
  char sig[160];
  for (int i = 0; i < 257; i++)
    rb[i] = fill == 0 ? vh_fillP ((size_t) i) : fill == 1 ? 0 : fill == 2 ? 0xff : fill < 259 ? (unsigned char) (fill - 3) : (unsigned char) ((fill - 259) + 41 * i);
  /* same random bytes, different memory after them: the result is a function of the nrbytes bytes only */
  for (int i = 0; i < 257; i++)
    rb2[i] = i < nrb ? rb[i] : (unsigned char) ~rb[i];
  snprintf (cj, sizeof cj, "{\"prefix\":%s,\"method\":\"%s\",\"count\":%lu,\"nrbytes\":%d,\"fill\":%d,\"replay\":\"%d:%d:%d:%d:%d\"",
            vh_jstr (pref[pi]), vh_methods[m].name, count, nrb, fill, pi, ci, ni, fill, do_hash);
  char o192[CRYPT_GENSALT_OUTPUT_SIZE + 8], o256[256 + 8], again[CRYPT_GENSALT_OUTPUT_SIZE], o384[384], o1024[1024];
  char *r1 = 0, *r2 = 0, *r3 = 0, *r0 = 0, *r1b = 0, *r4 = 0, *r5 = 0;
  char s0[CRYPT_GENSALT_OUTPUT_SIZE] = "";
  /* whatever errno an earlier call left behind must not matter (the calls below also leave ERANGE/EINVAL for one another) */
  static const int entry_errno[4] = { 0, ERANGE, EINVAL, ENOMEM };
  int k = VH_TRY (0);
  if (k == 0)
    {
      errno = entry_errno[(pi + ci + ni + fill) & 3];
      r1 = crypt_gensalt_rn (pref[pi], count, (const char *) rb, nrb, o192, CRYPT_GENSALT_OUTPUT_SIZE);
      r2 = crypt_gensalt_rn (pref[pi], count, (const char *) rb, nrb, o256, 256);
      r3 = crypt_gensalt_ra (pref[pi], count, (const char *) rb, nrb);
      r0 = crypt_gensalt (pref[pi], count, (const char *) rb, nrb);
      r1b = crypt_gensalt_rn (pref[pi], count, (const char *) rb2, nrb, again, sizeof again);
      r4 = crypt_gensalt_rn (pref[pi], count, (const char *) rb, nrb, o384, sizeof o384);
      r5 = crypt_gensalt_rn (pref[pi], count, (const char *) rb, nrb, o1024, sizeof o1024);
      VH_END ();
    }
  vh_stat ("evaluations", 7);
  if (k)
    {
      snprintf (sig, sizeof sig, "fatal/%s/method=%s", vh_fatal_name (k), vh_methods[m].name);
      vh_viol (sig, "%s,\"outcome\":\"%s\"}", cj, vh_js (vh_fatal_msg, strlen (vh_fatal_msg)));
      return;
    }
  if (r0)
    snprintf (s0, sizeof s0, "%s", r0);
  /* larger buffers: whatever they receive must satisfy the same obligations (shorter than CRYPT_GENSALT_OUTPUT_SIZE, safe,
     tagged, accepted by crypt) and equal the documented-size result when that exists; a larger buffer may succeed where
     the documented size reports ERANGE, never the other way round */
  {
    char *big[3] = { r2, r4, r5 };
    const char *bn[3] = { "256", "384", "1024" };
    for (int b = 0; b < 3; b++)
      {
        const char *why = 0;
        if (big[b] && (strlen (big[b]) >= CRYPT_GENSALT_OUTPUT_SIZE || !passwd_safe (big[b]) || !*big[b]))
          why = "not-shorter-than-CRYPT_GENSALT_OUTPUT_SIZE-or-unsafe";
        else if (big[b] && !begins_with_tag (m, big[b]))
          why = "wrong-method-tag";
        else if (big[b] && crypt_checksalt (big[b]) == CRYPT_SALT_INVALID)
          why = "checksalt-invalid";
        else if (big[b] && r1 && strcmp (big[b], r1))
          why = "differs-from-the-documented-size-result";
        else if (!big[b] && r1)
          why = "fails-where-the-documented-size-succeeds";
        else if (b && !big[b] && big[b - 1])
          why = "fails-where-a-smaller-buffer-succeeds";
        else if (b && big[b] && big[b - 1] && strcmp (big[b], big[b - 1]))
          why = "larger-buffers-differ";
        else if (big[b] && !r1 && do_hash)
          {
            char *h = crypt_rn ("pa55w0rd", big[b], cd, sizeof *cd);
            vh_stat ("hashes", 1);
            if (!h && !(errno == ENOMEM && vh_mmap_capped))
              why = "generated-setting-rejected";
            vh_mmap_capped = 0;
          }
        if (why)
          {
            snprintf (sig, sizeof sig, "larger-buffer/%s/method=%s", why, vh_methods[m].name);
            vh_viol (sig, "%s,\"output_size\":%s,\"result\":%s,\"rn192\":%s}", cj, bn[b], vh_jstr (big[b]), vh_jstr (r1));
            free (r3);
            return;
          }
      }
    if ((r2 || r4 || r5) && !r1)
      vh_stat ("only_larger_buffers_succeed", 1);
    if (r2 && !r1)
      r2 = 0;                   /* the documented-size entry points all report ERANGE: compared among themselves below */
  }
  int nok = !!r1 + !!r2 + !!r3 + !!r0 + !!r1b;
  if (nok != 0 && nok != 5)
    {
      snprintf (sig, sizeof sig, "entry-points-disagree-on-success/method=%s", vh_methods[m].name);
      vh_viol (sig, "%s,\"gensalt\":%s,\"rn192\":%s,\"rn256\":%s,\"ra\":%s}", cj, vh_jstr (r0), vh_jstr (r1), vh_jstr (r2), vh_jstr (r3));
      free (r3);
      return;
    }
  if (!nok)
    {
      vh_stat ("refused", 1);
      return;
    }
  vh_stat ("generated", 1);
  if (strcmp (r1, r2) || strcmp (r1, r3) || strcmp (r1, s0) || strcmp (r1, r1b))
    {
      snprintf (sig, sizeof sig, "entry-points-differ/method=%s", vh_methods[m].name);
      if (!strcmp (r1, r2) && !strcmp (r1, r3) && !strcmp (r1, s0))
        snprintf (sig, sizeof sig, "depends-on-memory-beyond-nrbytes/method=%s", vh_methods[m].name);
      vh_viol (sig, "%s,\"gensalt\":%s,\"rn192\":%s,\"rn256\":%s,\"ra\":%s,\"rn192_other_memory_after_rbytes\":%s}", cj, vh_jstr (s0), vh_jstr (r1), vh_jstr (r2),
               vh_jstr (r3), vh_jstr (r1b));
    }
  free (r3);
  const char *S = o192;
  if (!passwd_safe (S) || strlen (S) >= CRYPT_GENSALT_OUTPUT_SIZE || !*S)
    {
      snprintf (sig, sizeof sig, "not-passwd-safe/method=%s", vh_methods[m].name);
      vh_viol (sig, "%s,\"setting\":%s}", cj, vh_jstr (S));
    }
  if (!begins_with_tag (m, S))
    {
      snprintf (sig, sizeof sig, "wrong-method-tag/method=%s", vh_methods[m].name);
      vh_viol (sig, "%s,\"setting\":%s}", cj, vh_jstr (S));
    }
  if (crypt_checksalt (S) == CRYPT_SALT_INVALID)
    {
      snprintf (sig, sizeof sig, "checksalt-invalid/method=%s", vh_methods[m].name);
      vh_viol (sig, "%s,\"setting\":%s}", cj, vh_jstr (S));
    }
  if (vh_distinct (vh_hash_str (S, 5)))
    vh_stat ("distinct_nontrivial", 1);
  if (!do_hash)
    {
      /* too expensive to hash to the end: still, crypt must *accept* the setting.  A refusal comes back at once; an accepted
         setting is still hashing when the 40 ms timer abandons the call.  One probe per (prefix, count) for two fills. */
      if (nrb == 16 && (fill == 0 || fill == 2))
        {
          char *h = 0;
          vh_mmap_capped = 0;
          int kk = VH_TRY (40);
          if (kk == 0)
            {
              errno = 0;
              h = crypt_rn ("pa55w0rd", S, cd, sizeof *cd);
              VH_END ();
            }
          vh_stat ("acceptance_probes", 1);
          if (kk == VH_TIMEOUT)
            vh_stat ("acceptance_probes_still_hashing", 1);
          else if (kk)
            {
              snprintf (sig, sizeof sig, "fatal-in-crypt/%s/method=%s", vh_fatal_name (kk), vh_methods[m].name);
              vh_viol (sig, "%s,\"setting\":%s,\"outcome\":\"%s\"}", cj, vh_jstr (S), vh_js (vh_fatal_msg, strlen (vh_fatal_msg)));
            }
          else if (!h && vh_mmap_capped)
            vh_stat ("acceptance_probes_over_the_mapping_cap", 1);      /* the harness refused the working area: nothing learnt */
          else if (!h)
            {
              snprintf (sig, sizeof sig, "generated-setting-rejected/method=%s", vh_methods[m].name);
              vh_viol (sig, "%s,\"setting\":%s,\"errno\":%d,\"probe\":\"acceptance only\"}", cj, vh_jstr (S), errno);
            }
          vh_mmap_capped = 0;
        }
      return;
    }
  /* hashing with the generated setting succeeds and keeps the setting as a literal prefix */
  char p200[201];
  vh_fill (p200, 200, 'P');
  const char *phr[3] = { "", "pa55w0rd", p200 };
  size_t ls = strlen (S);
  for (int pj = 0; pj < 3; pj++)
    {
      char *h = 0;
      k = VH_TRY (0);
      if (k == 0)
        {
          errno = entry_errno[(pi + ci + ni + fill + pj + 1) & 3];
          h = crypt_rn (phr[pj], S, cd, sizeof *cd);
          VH_END ();
        }
      vh_stat ("evaluations", 1);
      vh_stat ("hashes", 1);
      if (k)
        {
          snprintf (sig, sizeof sig, "fatal-in-crypt/%s/method=%s", vh_fatal_name (k), vh_methods[m].name);
          vh_viol (sig, "%s,\"setting\":%s,\"outcome\":\"%s\"}", cj, vh_jstr (S), vh_js (vh_fatal_msg, strlen (vh_fatal_msg)));
          return;
        }
      if (!h)
        {
          if (errno == ENOMEM && vh_mmap_capped)
            {
              vh_stat ("budget_skipped", 1);
              vh_mmap_capped = 0;
              continue;
            }
          snprintf (sig, sizeof sig, "generated-setting-rejected/method=%s", vh_methods[m].name);
          vh_viol (sig, "%s,\"setting\":%s,\"phrase_len\":%zu,\"errno\":%d}", cj, vh_jstr (S), strlen (phr[pj]), errno);
          return;
        }
      if (strncmp (h, S, ls) || strlen (h) <= ls)
        {
          snprintf (sig, sizeof sig, "setting-not-kept/method=%s", vh_methods[m].name);
          vh_viol (sig, "%s,\"setting\":%s,\"hash\":%s}", cj, vh_jstr (S), vh_jstr (h));
          return;
        }
      if (pj == 1)
        {
          /* crypt_gensalt's static result handed to crypt without copying */
          char keep[CRYPT_OUTPUT_SIZE];
          strcpy (keep, h);
          char *g = crypt_gensalt (pref[pi], count, (const char *) rb, nrb);
          char *h2 = g ? crypt (phr[pj], g) : 0;
          vh_stat ("evaluations", 2);
          int bad = !h2 || strcmp (h2, keep);
          if (bad)
            {
              snprintf (sig, sizeof sig, "uncopied-static-setting/method=%s", vh_methods[m].name);
              vh_viol (sig, "%s,\"setting\":%s,\"crypt_rn\":%s,\"crypt_uncopied\":%s}", cj, vh_jstr (S), vh_jstr (keep), vh_jstr (h2));
            }
        }
    }
  if ((pi + ci + ni) % 13 == 0)
    vh_sample ("%s,\"setting\":%s,\"hashed\":true}", cj, vh_jstr (S));
}

int
main (int argc, char **argv)
{
  vh_init (argc, argv);
  vh_mmap_cap = vh_thorough ? (size_t) 300 << 20 : (size_t) 40 << 20;
  setup ();
  cd = calloc (1, sizeof *cd);
  if (vh_replay && *vh_replay)
    {
      int pi, ci, ni, f, dh;
      if (sscanf (vh_replay, "%d:%d:%d:%d:%d", &pi, &ci, &ni, &f, &dh) != 5)
        vh_internal ("bad replay token");
      one (pi, ci, ni, f, dh);
      vh_done ();
      return 0;
    }
  uint64_t idx = 0;
  for (int pi = 0; pi < NPREF; pi++)
    {
      int m = pref_method[pi];
      for (int ci = 0; ci < ncounts[m]; ci++)
        for (int ni = 0; ni < NNRB; ni++)
          for (int f = 0; f < 3; f++, idx++)
            {
              if (!vh_mine (idx))
                continue;
              int nrb = nrb_list[ni];
              if (ni >= NNRB_OLD && !vh_thorough && !((nrb >= 129 && nrb <= 200) || nrb % 5 == 0))
                continue;
              if (ni >= NNRB_OLD && f != 0 && pi > M_COUNT)
                continue;
              int budget = vh_thorough ? counts[m][ci].hash_thorough : counts[m][ci].hash_quick;
              /* hashing sub-grid: fill P; quick: nrbytes classes; thorough: every nrbytes for the cheap methods */
              int cheap = !(m == M_SUNMD5 || m == M_YESCRYPT || m == M_GOST || m == M_SCRYPT || (m == M_SHA1 && counts[m][ci].c > 20000));
              int nsel = nrb == 2 || nrb == 3 || nrb == 8 || nrb == 9 || nrb == 15 || nrb == 16 || nrb == 17 || nrb == 24 || nrb == 32
                || nrb == 63 || nrb == 64 || nrb == 65 || nrb == 70 || nrb == 256;
              int few = nrb == 16 || nrb == 64 || nrb == 65 || nrb == 256;
              int tag_only = pi <= M_COUNT;       /* tags and NULL; full hashes/settings add nothing to the hashing sub-grid */
              int dh = budget && f == 0 && (cheap ? (vh_thorough ? 1 : nsel) : (vh_thorough ? nsel : few)) && (tag_only || few);
              if (!cheap && !vh_thorough && counts[m][ci].c > 5 && m != M_SCRYPT)
                dh = dh && nrb == 16;
              if (vh_expired ())
                goto out;
              one (pi, ci, ni, f, dh);
            }
    }
  /* byte-value sweep: every value of the random bytes (constant fills put each 6-bit value at each salt position of the
     3-byte/4-character and byte-per-character encodings; the stepped fills mix them), cheapest hashable count, 64 bytes,
     every generated setting hashed */
  for (int pi = 0; pi <= M_COUNT && pi < NPREF; pi++)
    {
      int m = pref_method[pi], ci = -1;
      for (int c = 0; c < ncounts[m] && ci < 0; c++)
        if (counts[m][c].hash_quick && (counts[m][c].c != 0 || m == M_NT || m == M_DES || m == M_BIG || m == M_MD5))
          ci = c;
      if (ci < 0)
        for (int c = 0; c < ncounts[m] && ci < 0; c++)
          if (counts[m][c].hash_quick)
            ci = c;
      if (ci < 0)
        continue;
      int ni64 = 0;
      for (int ni = 0; ni < NNRB; ni++)
        if (nrb_list[ni] == 64)
          ni64 = ni;
      for (int f = 3; f < 3 + 256 + (vh_thorough ? 256 : 64); f++, idx++)
        {
          if (!vh_mine (idx))
            continue;
          if (vh_expired ())
            goto out;
          one (pi, ci, ni64, f, 1);
          vh_stat ("byte_value_sweep", 1);
        }
    }
out:
  vh_done ();
  return 0;
}
