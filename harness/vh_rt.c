/* vh_rt.c: see vh_rt.h */
#define _GNU_SOURCE
#include "vh_rt.h"
#include <stdarg.h>
#include <stdlib.h>
#include <unistd.h>
#include <dlfcn.h>
#include <time.h>
#include <sys/mman.h>
#include <sys/syscall.h>
#include <sys/time.h>

int vh_thorough;
unsigned vh_shard, vh_nshards = 1;
const char *vh_replay;
long vh_seed;
double vh_deadline;
static int truncated;

double
vh_now (void)
{
  struct timespec ts;
  clock_gettime (CLOCK_MONOTONIC, &ts);
  return (double) ts.tv_sec + 1e-9 * (double) ts.tv_nsec;
}

int
vh_expired (void)
{
  if (vh_deadline > 0 && vh_now () > vh_deadline)
    {
      truncated = 1;
      return 1;
    }
  return 0;
}

/* ------------------------------------------------------------------ stats */
#define MAXSTAT 256
static struct { char key[64]; long long v; int ismax; } stats[MAXSTAT];
static int nstats;
long long vh_nviol;
static long nsamples;

static int
stat_slot (const char *key)
{
  for (int i = 0; i < nstats; i++)
    if (!strcmp (stats[i].key, key))
      return i;
  if (nstats == MAXSTAT)
    vh_internal ("too many stat keys");
  snprintf (stats[nstats].key, sizeof stats[nstats].key, "%s", key);
  stats[nstats].v = 0;
  return nstats++;
}

void
vh_stat (const char *key, long long add)
{
  stats[stat_slot (key)].v += add;
}

void
vh_statmax (const char *key, long long v)
{
  int i = stat_slot (key);
  stats[i].ismax = 1;
  if (v > stats[i].v)
    stats[i].v = v;
}

void
vh_sample (const char *fmt, ...)
{
  /* keep the first few and then a thinning selection */
  nsamples++;
  if (nsamples > 6 && (nsamples & (nsamples - 1)) != 0)
    return;
  va_list ap;
  va_start (ap, fmt);
  fputs ("X ", stdout);
  vprintf (fmt, ap);
  fputc ('\n', stdout);
  va_end (ap);
}

void
vh_viol (const char *sig, const char *fmt, ...)
{
  vh_nviol++;
  /* print at most 3 cases per signature (all are counted) */
  static struct { uint64_t h; int n; } seen[1024];
  static int nseen;
  uint64_t h = vh_hash_str (sig, 99);
  int i;
  for (i = 0; i < nseen; i++)
    if (seen[i].h == h)
      break;
  if (i == nseen)
    {
      if (nseen == 1024)
        return;
      seen[nseen].h = h;
      seen[nseen++].n = 0;
    }
  if (++seen[i].n > 3)
    return;
  va_list ap;
  va_start (ap, fmt);
  printf ("V %s\t", sig);
  vprintf (fmt, ap);
  fputc ('\n', stdout);
  fflush (stdout);
  va_end (ap);
}

void
vh_internal (const char *fmt, ...)
{
  va_list ap;
  va_start (ap, fmt);
  fputs ("E ", stdout);
  vprintf (fmt, ap);
  fputc ('\n', stdout);
  fflush (stdout);
  va_end (ap);
  _exit (2);
}

static void
dump_stats (void)
{
  for (int i = 0; i < nstats; i++)
    printf ("%c %s %lld\n", stats[i].ismax ? 'M' : 'S', stats[i].key, stats[i].v);
  printf ("S violations_total %lld\n", vh_nviol);
}

void
vh_done (void)
{
  dump_stats ();
  printf ("DONE %d\n", truncated ? 0 : 1);
  fflush (stdout);
}

/* --------------------------------------------------------------- hashing */
uint64_t
vh_hash (const void *p, size_t n, uint64_t seed)
{
  const unsigned char *s = p;
  uint64_t h = 0xcbf29ce484222325ULL ^ (seed * 0x9e3779b97f4a7c15ULL);
  for (size_t i = 0; i < n; i++)
    {
      h ^= s[i];
      h *= 0x100000001b3ULL;
    }
  h ^= h >> 29;
  h *= 0xbf58476d1ce4e5b9ULL;
  h ^= h >> 32;
  return h;
}

static uint64_t *dset;
static size_t dcap, dcount;

int
vh_distinct (uint64_t fp)
{
  if (fp == 0)
    fp = 1;
  if (dcount * 2 >= dcap)
    {
      size_t ncap = dcap ? dcap * 2 : 1 << 16;
      uint64_t *n = calloc (ncap, sizeof *n);
      if (!n)
        vh_internal ("out of memory in distinct set");
      for (size_t i = 0; i < dcap; i++)
        if (dset[i])
          {
            size_t j = dset[i] & (ncap - 1);
            while (n[j])
              j = (j + 1) & (ncap - 1);
            n[j] = dset[i];
          }
      free (dset);
      dset = n;
      dcap = ncap;
    }
  size_t j = fp & (dcap - 1);
  while (dset[j])
    {
      if (dset[j] == fp)
        return 0;
      j = (j + 1) & (dcap - 1);
    }
  dset[j] = fp;
  dcount++;
  return 1;
}

static char ring[8][4200];
static int ringi;

const char *
vh_js (const void *p, size_t n)
{
  char *o = ring[ringi++ & 7];
  const unsigned char *s = p;
  size_t k = 0;
  size_t shown = n;
  if (shown > 600)
    shown = 600;
  for (size_t i = 0; i < shown; i++)
    {
      unsigned char c = s[i];
      if (c == '"' || c == '\\')
        {
          o[k++] = '\\';
          o[k++] = (char) c;
        }
      else if (c >= 0x20 && c < 0x7f)
        o[k++] = (char) c;
      else
        k += (size_t) sprintf (o + k, "\\u%04x", c);
    }
  if (shown < n)
    k += (size_t) sprintf (o + k, "...(%zu bytes)", n);
  o[k] = 0;
  return o;
}

const char *
vh_jstr (const char *s)
{
  if (!s)
    return "null";
  const char *e = vh_js (s, strlen (s));
  char *o = ring[ringi++ & 7];
  snprintf (o, sizeof ring[0], "\"%s\"", e);
  return o;
}

const char *
vh_hex (const void *p, size_t n)
{
  char *o = ring[ringi++ & 7];
  const unsigned char *s = p;
  if (n > 2000)
    n = 2000;
  for (size_t i = 0; i < n; i++)
    sprintf (o + 2 * i, "%02x", s[i]);
  o[2 * n] = 0;
  return o;
}

/* --------------------------------------------------------- fatal outcomes */
static void fatal_exit (const char *kind) __attribute__ ((noreturn));
static void dump_stats (void);
sigjmp_buf vh_env;
volatile int vh_armed;
volatile int vh_fatal_sig;
char vh_fatal_msg[256];

int vh_fatal_exit;
const char *vh_cur_case, *vh_cur_sig;
char vh_san_desc[128];

static void
fatal_exit (const char *kind)
{
  char sig[300];
  snprintf (sig, sizeof sig, "fatal/%s/%.80s/%s", vh_san_desc[0] ? vh_san_desc : kind, vh_fatal_msg, vh_cur_sig ? vh_cur_sig : "");
  printf ("V %s\t%s,\"outcome\":\"%s %s\"}\n", sig, vh_cur_case ? vh_cur_case : "{\"case\":null", kind, vh_js (vh_fatal_msg, strlen (vh_fatal_msg)));
  vh_stat ("stopped_after_fatal", 1);
  vh_nviol++;
  dump_stats ();
  fflush (stdout);
  _exit (3);
}

#if defined(__SANITIZE_ADDRESS__)
const char *__asan_get_report_description (void);
void __asan_on_error (void);
void
__asan_on_error (void)
{
  snprintf (vh_san_desc, sizeof vh_san_desc, "asan:%s", __asan_get_report_description ());
}
#endif

const char *
vh_fatal_name (int k)
{
  switch (k)
    {
    case VH_ASSERT: return "assert";
    case VH_ABORT: return "abort";
    case VH_SIGNAL: return "signal";
    case VH_TIMEOUT: return "timeout";
    default: return "ok";
    }
}

void __assert_fail (const char *expr, const char *file, unsigned int line, const char *func);
void
__assert_fail (const char *expr, const char *file, unsigned int line, const char *func)
{
  snprintf (vh_fatal_msg, sizeof vh_fatal_msg, "assert(%s) at %s:%u in %s", expr,
            file ? (strrchr (file, '/') ? strrchr (file, '/') + 1 : file) : "?", line, func ? func : "?");
  if (vh_fatal_exit)
    fatal_exit ("assert");
  if (vh_armed)
    {
      vh_armed = 0;
      siglongjmp (vh_env, VH_ASSERT);
    }
  fprintf (stderr, "harness: unarmed %s\n", vh_fatal_msg);
  _exit (2);
}

void
abort (void)
{
  if (vh_fatal_exit)
    {
      snprintf (vh_fatal_msg, sizeof vh_fatal_msg, "abort()");
      fatal_exit ("abort");
    }
  if (vh_armed)
    {
      vh_armed = 0;
      snprintf (vh_fatal_msg, sizeof vh_fatal_msg, "abort()");
      siglongjmp (vh_env, VH_ABORT);
    }
  signal (SIGABRT, SIG_DFL);
  raise (SIGABRT);
  _exit (134);
}

static void
on_signal (int sig)
{
  if (vh_fatal_exit && sig != SIGALRM)
    {
      snprintf (vh_fatal_msg, sizeof vh_fatal_msg, "signal %d", sig);
      fatal_exit ("signal");
    }
  if (vh_armed)
    {
      vh_armed = 0;
      vh_fatal_sig = sig;
      if (sig == SIGALRM)
        {
          snprintf (vh_fatal_msg, sizeof vh_fatal_msg, "case time limit");
          siglongjmp (vh_env, VH_TIMEOUT);
        }
      snprintf (vh_fatal_msg, sizeof vh_fatal_msg, "signal %d", sig);
      if (vh_fatal_exit)
        fatal_exit ("signal");
      siglongjmp (vh_env, sig == SIGABRT ? VH_ABORT : VH_SIGNAL);
    }
  if (sig == SIGALRM)
    return;
  static const char m[] = "E harness: fatal signal outside an armed case\n";
  ssize_t r = write (1, m, sizeof m - 1);
  (void) r;
  _exit (2);
}

void
vh_arm_timer (unsigned ms)
{
  if (!ms)
    return;
  struct itimerval it = { {0, 0}, {ms / 1000, (ms % 1000) * 1000} };
  setitimer (ITIMER_REAL, &it, 0);
}

void
vh_disarm_timer (void)
{
  struct itimerval it = { {0, 0}, {0, 0} };
  setitimer (ITIMER_REAL, &it, 0);
}

void
vh_init (int argc, char **argv)
{
  for (int i = 1; i < argc; i++)
    {
      if (!strcmp (argv[i], "--tier") && i + 1 < argc)
        vh_thorough = !strcmp (argv[++i], "thorough");
      else if (!strcmp (argv[i], "--shard") && i + 1 < argc)
        vh_shard = (unsigned) atoi (argv[++i]);
      else if (!strcmp (argv[i], "--nshards") && i + 1 < argc)
        vh_nshards = (unsigned) atoi (argv[++i]);
      else if (!strcmp (argv[i], "--replay") && i + 1 < argc)
        vh_replay = argv[++i];
      else if (!strcmp (argv[i], "--deadline") && i + 1 < argc)
        vh_deadline = vh_now () + atof (argv[++i]);
      else if (!strcmp (argv[i], "--seed") && i + 1 < argc)
        vh_seed = atol (argv[++i]);
    }
  if (vh_nshards == 0)
    vh_nshards = 1;
  static char altstack[1 << 16];
  stack_t ss = { altstack, 0, sizeof altstack };
  sigaltstack (&ss, 0);
  struct sigaction sa;
  memset (&sa, 0, sizeof sa);
  sa.sa_handler = on_signal;
  sa.sa_flags = SA_ONSTACK | SA_NODEFER;
  int sigs[] = { SIGSEGV, SIGBUS, SIGFPE, SIGILL, SIGABRT, SIGALRM };
  for (unsigned i = 0; i < sizeof sigs / sizeof *sigs; i++)
    sigaction (sigs[i], &sa, 0);
  static char obuf[1 << 16];
  setvbuf (stdout, obuf, _IOFBF, sizeof obuf);
}

/* --------------------------------------------------------- guarded memory */
static void *
raw_mmap (void *a, size_t n, int prot, int flags, int fd, off_t off)
{
  long r = syscall (SYS_mmap, a, n, prot, flags, fd, off);
  return (void *) r;
}

static uintptr_t guard_lo = (uintptr_t) -1, guard_hi;
int
vh_is_guard_block (const void *p)
{
  return (uintptr_t) p >= guard_lo && (uintptr_t) p < guard_hi;
}

void *
vh_guard_alloc (size_t n)
{
  size_t pg = 4096;
  size_t body = (n + pg - 1) / pg * pg;
  if (body == 0)
    body = pg;
  unsigned char *base = raw_mmap (0, body + 2 * pg, PROT_NONE, MAP_PRIVATE | MAP_ANONYMOUS, -1, 0);
  if (base == MAP_FAILED)
    vh_internal ("guard mmap failed");
  if (mprotect (base + pg, body, PROT_READ | PROT_WRITE))
    vh_internal ("guard mprotect failed");
  memset (base + pg, 0xEE, body);
  if ((uintptr_t) base < guard_lo)
    guard_lo = (uintptr_t) base;
  if ((uintptr_t) base + body + 2 * pg > guard_hi)
    guard_hi = (uintptr_t) base + body + 2 * pg;
  return base + pg + body - n;
}

void
vh_guard_free (void *p, size_t n)
{
  size_t pg = 4096;
  size_t body = (n + pg - 1) / pg * pg;
  if (body == 0)
    body = pg;
  unsigned char *end = (unsigned char *) p + n;
  syscall (SYS_munmap, end - body - pg, body + 2 * pg);
}

char *
vh_guard_str (const char *s, size_t n)
{
  char *g = vh_guard_alloc (n + 1);
  memcpy (g, s, n);
  g[n] = 0;
  return g;
}

/* -------------------------------------------------------------- seams */
size_t vh_mmap_cap = (size_t) 1200 << 20;
long vh_mmap_calls, vh_munmap_calls, vh_mmap_live, vh_mmap_capped;
size_t vh_mmap_live_bytes, vh_mmap_peak;
long vh_fail_at[3];
long vh_req_count;
volatile int vh_seam_armed;
char vh_req_log[256];
vh_release_cb vh_on_release;
vh_request_cb vh_on_request;
vh_map_cb vh_on_map;
struct vh_blk vh_ledger[512];
int vh_nledger;
long vh_bad_free;

void
vh_ledger_reset (void)
{
  vh_nledger = 0;
  vh_req_count = 0;
  vh_bad_free = 0;
  vh_req_log[0] = 0;
}

struct vh_blk *
vh_ledger_find (const void *p)
{
  for (int i = vh_nledger - 1; i >= 0; i--)
    if (vh_ledger[i].live && vh_ledger[i].p == p)
      return &vh_ledger[i];
  return 0;
}

int
vh_ledger_live (int kind)
{
  int c = 0;
  for (int i = 0; i < vh_nledger; i++)
    if (vh_ledger[i].live && vh_ledger[i].by_lib && (!kind || vh_ledger[i].kind == kind))
      c++;
  return c;
}

static void
ledger_add (void *p, size_t n, int kind)
{
  if (vh_nledger == 512)
    return;
  vh_ledger[vh_nledger++] = (struct vh_blk) { p, n, kind, 1, vh_seam_armed, 0 };
}

void *
vh_inplace_alloc (size_t n, size_t cap)
{
  void *p = vh_guard_alloc (cap);
  if (vh_nledger == 512)
    vh_internal ("ledger full");
  vh_ledger[vh_nledger++] = (struct vh_blk) { p, n, 'm', 1, 1, cap };
  return p;
}

/* returns 1 when this request must fail */
static int
seam_request (char kind)
{
  if (!vh_seam_armed)
    return 0;
  vh_req_count++;
  size_t l = strlen (vh_req_log);
  if (l + 1 < sizeof vh_req_log)
    {
      vh_req_log[l] = kind;
      vh_req_log[l + 1] = 0;
    }
  return vh_req_count == vh_fail_at[0] || vh_req_count == vh_fail_at[1] || vh_req_count == vh_fail_at[2];
}

void *mmap (void *addr, size_t len, int prot, int flags, int fd, off_t off);
void *
mmap (void *addr, size_t len, int prot, int flags, int fd, off_t off)
{
  int lib = vh_seam_armed;
  if (lib)
    {
      vh_mmap_calls++;
      /* 'H': a huge-page attempt, which the library treats as optional (and which this sandbox always refuses) */
      if (seam_request ((flags & MAP_HUGETLB) ? 'H' : 'M'))
        {
          errno = ENOMEM;
          return MAP_FAILED;
        }
    }
  if (len > vh_mmap_cap)
    {
      vh_mmap_capped++;
      errno = ENOMEM;
      return MAP_FAILED;
    }
  if (flags & MAP_HUGETLB)
    {
      /* the sandbox has no huge pages reserved; answer as the kernel would */
      errno = ENOMEM;
      return MAP_FAILED;
    }
  void *r = raw_mmap (addr, len, prot, flags, fd, off);
  if ((unsigned long) r > (unsigned long) -4096)
    {
      errno = -(int) (long) r;
      return MAP_FAILED;
    }
  if (vh_on_map)
    vh_on_map ('M', r, len);
  if (lib)
    {
      ledger_add (r, len, 'M');
      vh_mmap_live++;
      vh_mmap_live_bytes += len;
      if (vh_mmap_live_bytes > vh_mmap_peak)
        vh_mmap_peak = vh_mmap_live_bytes;
    }
  return r;
}

int munmap (void *addr, size_t len);
int
munmap (void *addr, size_t len)
{
  struct vh_blk *b = vh_ledger_find (addr);
  if (vh_on_map)
    vh_on_map ('U', addr, len);
  if (vh_seam_armed)
    {
      vh_munmap_calls++;
      if (seam_request ('U'))
        {
          errno = EINVAL;
          return -1;
        }
      if (!b || b->kind != 'M' || b->n != len)
        vh_bad_free++;
    }
  if (b && b->kind == 'M')
    {
      if (vh_on_release)
        vh_on_release (addr, b->n, 'M');
      if (len < b->n)
        {
          /* only the head of the mapping is released: the tail stays mapped and stays in the ledger */
          b->p = (char *) b->p + ((len + 4095) & ~(size_t) 4095);
          b->n -= (len + 4095) & ~(size_t) 4095;
          vh_mmap_live_bytes -= (len + 4095) & ~(size_t) 4095;
        }
      else
        {
          b->live = 0;
          vh_mmap_live--;
          vh_mmap_live_bytes -= b->n;
        }
    }
  long r = syscall (SYS_munmap, addr, len);
  return (int) r;
}

#ifdef VH_MALLOC_SEAM
/* Blocks handed out while the seam is armed end exactly at an inaccessible page, so a write or read past a block
   faults at the offending instruction (inside the armed call) instead of corrupting the harness's heap. */
static void *
armed_alloc (size_t n)
{
  return vh_guard_alloc (n ? n : 1);
}

static int
is_guarded (const struct vh_blk *b)
{
  return b && b->kind == 'm' && b->by_lib >= 0;
}
extern void *__libc_malloc (size_t);
extern void *__libc_realloc (void *, size_t);
extern void *__libc_calloc (size_t, size_t);
extern void __libc_free (void *);

void *
malloc (size_t n)
{
  if (vh_seam_armed)
    {
      if (vh_on_request)
        vh_on_request ('m', n);
      if (seam_request ('m'))
        {
          errno = ENOMEM;
          return 0;
        }
      void *p = armed_alloc (n);
      if (p)
        ledger_add (p, n, 'm');
      return p;
    }
  return __libc_malloc (n);
}

void *
calloc (size_t a, size_t b)
{
  if (vh_seam_armed)
    {
      if (vh_on_request)
        vh_on_request ('m', a * b);
      if (seam_request ('m'))
        {
          errno = ENOMEM;
          return 0;
        }
      void *p = armed_alloc (a * b);
      if (p)
        {
          memset (p, 0, a * b);
          ledger_add (p, a * b, 'm');
        }
      return p;
    }
  return __libc_calloc (a, b);
}

void *
realloc (void *old, size_t n)
{
  if (vh_seam_armed)
    {
      if (vh_on_request)
        vh_on_request ('r', n);
      if (seam_request ('r'))
        {
          errno = ENOMEM;
          return 0;
        }
      struct vh_blk *b = old ? vh_ledger_find (old) : 0;
      if (old && !b)
        vh_bad_free++;
      if (b && vh_on_release)
        vh_on_release (old, b->n, 'r');
      if (b && b->cap && n <= b->cap)
        {
          /* the heap had room behind the block: same address, the added bytes hold whatever was there before */
          b->n = n;
          return old;
        }
      /* otherwise always move, so stale pointers are caught and contents rules are visible */
      void *p = armed_alloc (n);
      if (!p)
        return 0;
      if (old)
        {
          size_t c = b ? b->n : 0;
          if (c > n)
            c = n;
          memcpy (p, old, c);
          if (b)
            {
              b->live = 0;
              vh_guard_free (old, b->cap ? b->cap : b->n ? b->n : 1);        /* the old block disappears: a stale pointer faults */
            }
          else
            __libc_free (old);
        }
      ledger_add (p, n, 'm');
      return p;
    }
  return __libc_realloc (old, n);
}

void
free (void *p)
{
  if (!p)
    return;
  struct vh_blk *b = vh_ledger_find (p);
  if (vh_seam_armed)
    {
      seam_request ('f');       /* free cannot fail; logged only */
      if (!b)
        vh_bad_free++;
    }
  if (b && b->kind == 'm')
    {
      if (vh_on_release)
        vh_on_release (p, b->n, 'f');
      b->live = 0;
      vh_guard_free (p, b->cap ? b->cap : b->n ? b->n : 1);          /* every ledger block of kind 'm' was made by armed_alloc */
      return;
    }
  /* a block that left the ledger (ledger reset between cases) but was guard-allocated cannot be told apart from a libc
     block by address alone: guard blocks live outside the brk/arena ranges libc uses, so ask libc only for its own */
  if (vh_is_guard_block (p))
    return;                     /* leaked on purpose: unmapping without the size is not possible; cases are short-lived */
  __libc_free (p);
}
#endif

/* entropy */
long vh_ent_calls;
size_t vh_ent_last_n;
uint64_t vh_ent_counter;
unsigned char vh_ent_last[256];
int vh_ent_passthrough;

void
vh_ent_fill (unsigned char *p, size_t n, uint64_t ctr)
{
  for (size_t i = 0; i < n; i++)
    {
      uint64_t x = (ctr + 1) * 0x9e3779b97f4a7c15ULL + i * 0xd6e8feb86659fd93ULL;
      x ^= x >> 32;
      x *= 0xd6e8feb86659fd93ULL;
      x ^= x >> 29;
      p[i] = (unsigned char) x;
    }
}

void arc4random_buf (void *buf, size_t n);
void
arc4random_buf (void *buf, size_t n)
{
  if (vh_ent_passthrough)
    {
      static void (*real) (void *, size_t);
      if (!real)
        real = (void (*)(void *, size_t)) dlsym (RTLD_NEXT, "arc4random_buf");
      real (buf, n);
      return;
    }
  vh_ent_calls++;
  vh_ent_last_n = n;
  vh_ent_fill (buf, n, vh_ent_counter);
  memcpy (vh_ent_last, buf, n < sizeof vh_ent_last ? n : sizeof vh_ent_last);
  vh_ent_counter++;
}
