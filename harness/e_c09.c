/* C09: working memory and passphrase copies are erased before returning.
   Every case runs the library call on a dedicated thread whose 1 MiB stack was pre-filled,
   with the allocator/mapping seam scanning every block at the moment the library releases
   it; afterwards the data object, blocks still live and (for the -O0 build) the used stack
   are scanned for any >= 6-byte window of the passphrase in the encodings the algorithms use. */
#define _GNU_SOURCE
#include "crypt-port.h"
#include "alg-md4.h"
#include "alg-md5.h"
#include "alg-sha1.h"
#include "alg-sha256.h"
#include "alg-sha512.h"
#include "alg-hmac-sha1.h"
#include "alg-gost3411-2012-core.h"
#include "alg-gost3411-2012-hmac.h"
#include "vh_rt.h"
#include "vh_methods.h"
#include <pthread.h>
#include <stdlib.h>

#ifndef VH_SCAN_STACK
#define VH_SCAN_STACK 0
#endif
#define STK (1 << 20)
static unsigned char *stk;

/* ---- window set ------------------------------------------------------------- */
#define WSET (1 << 15)
static uint64_t wset[WSET];
static unsigned char wenc[WSET];
static int nwin;
static const char *const encname[] = { "raw", "UCS-2LE", "shifted<<1", "xor-0x36", "xor-0x5c", "bswap32", "bswap64", "entropy-bytes" };

static void
wset_clear (void)
{
  memset (wset, 0, sizeof wset);
  nwin = 0;
}

static void
wset_add_buf (const unsigned char *b, size_t n, int enc)
{
  for (size_t i = 0; i + 6 <= n; i++)
    {
      uint64_t v = 0;
      memcpy (&v, b + i, 6);
      /* windows that are trivially common (all equal bytes, or the stack fill) would alias: skip them */
      if ((b[i] == b[i + 1] && b[i] == b[i + 2] && b[i] == b[i + 3]) || v == 0)
        continue;
      v |= (uint64_t) 1 << 63;
      size_t j = (size_t) (v * 0x9e3779b97f4a7c15ULL >> 49) & (WSET - 1);
      while (wset[j] && wset[j] != v)
        j = (j + 1) & (WSET - 1);
      if (!wset[j])
        {
          wset[j] = v;
          wenc[j] = (unsigned char) enc;
          nwin++;
        }
    }
}

static void
wset_phrase (const unsigned char *p, size_t n)
{
  static unsigned char e[2100];
  wset_clear ();
  if (n < 6)
    return;
  wset_add_buf (p, n, 0);
  for (size_t i = 0; i < n; i++)
    {
      e[2 * i] = p[i];
      e[2 * i + 1] = 0;
    }
  wset_add_buf (e, 2 * n, 1);
  for (size_t i = 0; i < n; i++)
    e[i] = (unsigned char) (p[i] << 1);
  wset_add_buf (e, n, 2);
  for (size_t i = 0; i < n; i++)
    e[i] = p[i] ^ 0x36;
  wset_add_buf (e, n, 3);
  for (size_t i = 0; i < n; i++)
    e[i] = p[i] ^ 0x5c;
  wset_add_buf (e, n, 4);
  for (size_t i = 0; i + 4 <= n; i += 4)
    {
      e[i] = p[i + 3];
      e[i + 1] = p[i + 2];
      e[i + 2] = p[i + 1];
      e[i + 3] = p[i];
    }
  wset_add_buf (e, n & ~(size_t) 3, 5);
  for (size_t i = 0; i + 8 <= n; i += 8)
    for (int k = 0; k < 8; k++)
      e[i + (size_t) k] = p[i + 7 - (size_t) k];
  wset_add_buf (e, n & ~(size_t) 7, 6);
}

/* returns encoding index of the first window found in [b, b+n), else -1; *where = offset */
static int
scan (const unsigned char *b, size_t n, size_t *where)
{
  if (!nwin || n < 6)
    return -1;
  for (size_t i = 0; i + 6 <= n; i++)
    {
      uint64_t v = 0;
      memcpy (&v, b + i, 6);
      v |= (uint64_t) 1 << 63;
      size_t j = (size_t) (v * 0x9e3779b97f4a7c15ULL >> 49) & (WSET - 1);
      while (wset[j])
        {
          if (wset[j] == v)
            {
              *where = i;
              return wenc[j];
            }
          j = (j + 1) & (WSET - 1);
        }
    }
  return -1;
}

/* ---- release-time scanning (seam callback) -------------------------------------- */
static int rel_found = -1, rel_kind;
static size_t rel_where, rel_size;
static int ra_release_dirty;
static const void *ra_watch;
static int ra_watch_size;
static void
on_release (const void *p, size_t n, int kind)
{
  size_t w;
  /* mappings can be large: the first and last 256 KiB are where key-derived material starts and ends */
  int e = -1;
  if (n <= (1u << 20))
    e = scan (p, n, &w);
  else
    {
      e = scan (p, 1u << 18, &w);
      if (e < 0)
        e = scan ((const unsigned char *) p + n - (1u << 18), 1u << 18, &w);
    }
  if (e >= 0 && rel_found < 0)
    {
      rel_found = e;
      rel_kind = kind;
      rel_where = w;
      rel_size = n;
    }
  if ((kind == 'r' || kind == 'f') && p == ra_watch && ra_watch_size > 0)
    for (size_t i = 0; i < (size_t) ra_watch_size && i < n; i++)
      if (((const unsigned char *) p)[i])
        ra_release_dirty = 1;
}

/* request-time check: when the library first asks the allocator for memory during a crypt_ra call on an undersized
   handle, that handle must already have been erased ("erases an undersized buffer before reallocating it") */
static int ra_request_seen, ra_request_dirty;
static void
on_request (int kind, size_t n)
{
  (void) kind;
  (void) n;
  if (ra_request_seen || !ra_watch || ra_watch_size <= 0)
    return;
  ra_request_seen = 1;
  for (size_t i = 0; i < (size_t) ra_watch_size; i++)
    if (((const unsigned char *) ra_watch)[i])
      ra_request_dirty = 1;
}

/* ---- the call, on its own stack --------------------------------------------------- */
struct job
{
  int ep;                       /* 0 crypt_rn 1 crypt_r 2 crypt_ra 3 gensalt_rn(NULL) 4 gensalt(NULL) static 5 gensalt_ra */
  const char *phrase, *setting;
  struct crypt_data *d;
  void **rad;
  int *rasz;
  int failmap;                  /* fail the k-th seam request */
  unsigned long gcount;         /* gensalt count */
  int gsize;                    /* gensalt output size (0: CRYPT_GENSALT_OUTPUT_SIZE) */
  char res[CRYPT_OUTPUT_SIZE];
  int isnull, err;
};

static void *
runner (void *arg)
{
  struct job *j = arg;
  char *r = 0;
  char out[CRYPT_GENSALT_OUTPUT_SIZE];
  vh_req_count = 0;
  vh_fail_at[0] = j->failmap;
  vh_on_release = on_release;
  vh_on_request = on_request;
  ra_request_seen = ra_request_dirty = 0;
  vh_seam_armed = 1;
  errno = 0;
  switch (j->ep)
    {
    case 0: r = crypt_rn (j->phrase, j->setting, j->d, sizeof *j->d); break;
    case 1: r = crypt_r (j->phrase, j->setting, j->d); break;
    case 2: r = crypt_ra (j->phrase, j->setting, j->rad, j->rasz); break;
    case 3: r = crypt_gensalt_rn (j->setting, j->gcount, 0, 0, out, j->gsize ? j->gsize : (int) sizeof out); break;
    case 4: r = crypt_gensalt (j->setting, j->gcount, 0, 0); break;
    default:
      r = crypt_gensalt_ra (j->setting, j->gcount, 0, 0);
      break;
    }
  j->err = errno;
  vh_seam_armed = 0;
  vh_on_release = 0;
  vh_on_request = 0;
  vh_fail_at[0] = 0;
  j->isnull = r == 0;
  if (r)
    {
      size_t l = strlen (r);
      memcpy (j->res, r, l < sizeof j->res - 1 ? l + 1 : sizeof j->res - 1);
    }
  if (j->ep == 5 && r)
    free (r);
  return 0;
}

static void
run_on_stack (struct job *j)
{
  pthread_attr_t at;
  pthread_t th;
  memset (stk, 0xA5, STK);
  pthread_attr_init (&at);
  pthread_attr_setstack (&at, stk, STK);
  rel_found = -1;
  ra_release_dirty = 0;
  if (pthread_create (&th, &at, runner, j))
    vh_internal ("pthread_create failed");
  pthread_join (th, 0);
  pthread_attr_destroy (&at);
}

static size_t
stack_used (void)
{
  size_t i = 0;
  while (i < STK && stk[i] == 0xA5)
    i++;
  return STK - i;
}

/* ---- cases -------------------------------------------------------------------------- */
enum { K_SUCCESS, K_METHOD_FAIL, K_BADCHAR, K_TOOLONG, K_UNKNOWN, K_MAPFAIL, K_SMALL_RA, K_SMALL_RA_NOMEM, NKIND };
static const char *const kname[NKIND] = { "success", "method-level failure", "forbidden byte", "phrase too long", "unknown prefix", "mmap failure", "undersized crypt_ra block", "undersized crypt_ra block, replacement allocation fails" };
static const int plens[] = { 1, 7, 8, 9, 16, 55, 56, 64, 65, 100, 128, 199, 511 };
static const char *const epname[] = { "crypt_rn", "crypt_r", "crypt_ra", "crypt_gensalt_rn(NULL)", "crypt_gensalt(NULL)", "crypt_gensalt_ra(NULL)" };

/* a setting of method M that passes the generic checks but is refused by the method */
static const char *
method_fail_setting (int m)
{
  switch (m)
    {
    case M_YESCRYPT: return "$y$j75$sa=lt";
    case M_GOST: return "$gy$j75$sa=lt";
    case M_SCRYPT: return "$7$./..../....salt";
    case M_BCRYPT_B: return "$2b$03$abcdefghijklmnopqrstuu";
    case M_BCRYPT_Y: return "$2y$03$abcdefghijklmnopqrstuu";
    case M_BCRYPT_A: return "$2a$03$abcdefghijklmnopqrstuu";
    case M_BCRYPT_X: return "$2x$03$abcdefghijklmnopqrstuu";
    case M_SHA512: return "$6$rounds=1$salt";
    case M_SHA256: return "$5$rounds=1$salt";
    case M_SHA1: return "$sha1$24$sa=lt";
    case M_SUNMD5: return "$md5,rounds=0$salt";
    case M_BSDI: return "_/...sa=t";
    default: return 0;          /* md5crypt, NT, descrypt, bigcrypt: a dispatched setting is never refused by the method */
    }
}

static char cj[700];
static struct crypt_data *D;
static const char *alt_setting;        /* salt-length variants: replaces the method's canonical setting */
static const char *rp_override;

static void
one_case (int m, int kind, int pli, int ep)
{
  char ph[700], sig[220], rp[48];
  size_t pl = pli >= 1000 ? (size_t) (pli - 1000) : (size_t) plens[pli];
  if (kind == K_TOOLONG)
    pl = 600;
  vh_fill (ph, pl, 'P');
  char *phrase = malloc (pl + 1);       /* the caller's copy lives in the heap, outside every scanned area */
  memcpy (phrase, ph, pl + 1);
  memset (ph, 0, sizeof ph);
  const char *setting = alt_setting ? alt_setting : vh_cheap[m][0];
  if (kind == K_METHOD_FAIL && !alt_setting)
    setting = method_fail_setting (m);
  else if (kind == K_BADCHAR)
    setting = "$1$sa:lt";
  else if (kind == K_UNKNOWN)
    setting = "$9$salt";
  if (!setting)
    {
      free (phrase);
      return;
    }
  int yfam = m == M_YESCRYPT || m == M_GOST || m == M_SCRYPT;
  if (kind == K_MAPFAIL && !yfam)
    {
      free (phrase);
      return;
    }
  if ((kind == K_SMALL_RA || kind == K_SMALL_RA_NOMEM) && ep != 2)
    {
      free (phrase);
      return;
    }
  snprintf (rp, sizeof rp, "%d:%d:%d:%d", m, kind, pli, ep);
  if (rp_override)
    snprintf (rp, sizeof rp, "%s", rp_override);
  snprintf (cj, sizeof cj, "{\"method\":\"%s\",\"outcome_kind\":\"%s\",\"phrase_len\":%zu,\"entry\":\"%s\",\"setting\":%s,\"replay\":\"%s\"", vh_methods[m].name,
            kname[kind], pl, epname[ep], vh_jstr (setting), rp);
  /* object: scratch pre-filled so that "untouched" and "erased" are both visible */
  memset (D, 0, sizeof *D);
  memset (D->internal, 0xA5, sizeof D->internal);
  memset (D->reserved, 0xA5, sizeof D->reserved);
  D->initialized = 1;
  void *rad = 0;
  int rasz = 0;
  vh_ledger_reset ();
  if (ep == 2)
    {
      if (kind == K_SMALL_RA || kind == K_SMALL_RA_NOMEM)
        {
          /* previous user's secret in the undersized block, at its start and well past the first 384 bytes */
          vh_seam_armed = 1;
          rad = malloc (1400);
          vh_seam_armed = 0;
          memset (rad, 0, 1400);
          memcpy (rad, phrase, pl < 200 ? pl : 200);
          memcpy ((char *) rad + 700, phrase, pl);
          rasz = 1400;
        }
      else
        {
          vh_seam_armed = 1;
          rad = malloc (sizeof *D);
          vh_seam_armed = 0;
          memcpy (rad, D, sizeof *D);
          rasz = sizeof *D;
        }
    }
  ra_watch = rad;
  ra_watch_size = kind == K_SMALL_RA || kind == K_SMALL_RA_NOMEM ? rasz : 0;
  struct job j = { ep, phrase, setting, D, &rad, &rasz, kind == K_MAPFAIL || kind == K_SMALL_RA_NOMEM ? 1 : 0, 0, 0, "", 0, 0 };
  wset_phrase ((const unsigned char *) phrase, pl);
  run_on_stack (&j);
  vh_stat ("evaluations", 1);
  vh_statmax ("max_stack_used", (long long) stack_used ());
  if (getenv ("VH_DEBUG"))
    {
      static const unsigned char pat[6] = { 0x2a, 0x73, 0xbc, 0x0b, 0x54, 0x9d };
      void *q = memmem (stk, STK, pat, 6);
      if (q)
        fprintf (stderr, "DEBUG P-run on stack after case %s at top-%zu used %zu: %s\n", rp, (size_t) (stk + STK - (unsigned char *) q), stack_used (), vh_hex (q, 40));
    }
  struct crypt_data *o = ep == 2 ? rad : D;
  int validated = kind == K_SUCCESS || kind == K_METHOD_FAIL || kind == K_MAPFAIL || kind == K_SMALL_RA;
  const char *why = 0;
  size_t w = 0;
  int enc = -1;
  int failed = j.isnull || j.res[0] == '*';
  if ((kind == K_SUCCESS || kind == K_SMALL_RA) && failed)
    why = "valid request failed";
  else if (kind != K_SUCCESS && kind != K_SMALL_RA && !failed)
    why = "expected failure did not happen";
  if (!why && o && (ep != 2 || rasz >= (int) sizeof *o))
    {
      int dirty = 0, untouched = 1;
      for (size_t i = 0; i < sizeof o->internal; i++)
        {
          dirty |= o->internal[i] != 0;
          untouched &= (unsigned char) o->internal[i] == 0xA5;
        }
      for (size_t i = 0; i < sizeof o->reserved; i++)
        {
          dirty |= o->reserved[i] != 0;
          untouched &= (unsigned char) o->reserved[i] == 0xA5;
        }
      dirty |= o->initialized != 0;
      untouched &= o->initialized == 1;
      if (validated && dirty)
        why = "internal/reserved/initialized not erased after a call that passed validation";
      if (!validated && !untouched)
        why = "internal/reserved/initialized modified by a call that failed validation";
      if (!why && (enc = scan ((const unsigned char *) o, sizeof *o, &w)) >= 0)
        why = "passphrase material left in the data object";
    }
  if (!why && rel_found >= 0)
    {
      enc = rel_found;
      w = rel_where;
      why = rel_kind == 'M' ? "passphrase material in a mapping at munmap time" : "passphrase material in a heap block at free/realloc time";
    }
  if (!why && (kind == K_SMALL_RA || kind == K_SMALL_RA_NOMEM) && ra_release_dirty)
    why = "undersized crypt_ra block not erased before realloc";
  if (!why && (kind == K_SMALL_RA || kind == K_SMALL_RA_NOMEM) && ra_request_dirty)
    why = "undersized crypt_ra block not yet erased when its replacement was requested from the allocator";
  if (!why && (kind == K_SMALL_RA || kind == K_SMALL_RA_NOMEM) && !ra_request_seen)
    why = "crypt_ra on an undersized block made no allocator request";
  if (!why)
    for (int i = 0; i < vh_nledger; i++)
      if (vh_ledger[i].live && vh_ledger[i].p != rad && (enc = scan (vh_ledger[i].p, vh_ledger[i].n, &w)) >= 0)
        why = "passphrase material in a block still live after the call";
  if (!why && VH_SCAN_STACK && (enc = scan (stk, STK, &w)) >= 0)
    why = "passphrase material left on the stack the call used (-O0 build)";
  if (why && getenv ("VH_DEBUG") && strstr (why, "stack"))
    fprintf (stderr, "DEBUG stack residue at %zu (top-%zu): %s | phrase %s\n", w, STK - w, vh_hex (stk + w - 16, 64), vh_hex (phrase, pl > 24 ? 24 : pl));
  if (why)
    {
      snprintf (sig, sizeof sig, "%s/%s/method=%s", why, enc >= 0 ? encname[enc] : "-", vh_methods[m].name);
      vh_viol (sig, "%s,\"encoding\":\"%s\",\"offset\":%zu,\"result\":%s,\"errno\":%d}", cj, enc >= 0 ? encname[enc] : "-", w, j.isnull ? "null" : vh_jstr (j.res), j.err);
    }
  else if (vh_distinct (vh_hash_str (cj, 1)))
    vh_stat ("distinct_nontrivial", 1);
  vh_stat (validated ? "validated_calls" : "rejected_calls", 1);
  if (rad)
    free (rad);
  free (phrase);
}

/* crypt_gensalt* with rbytes == NULL: the bytes drawn from the OS source do not survive */
/* variant 0: default request (succeeds); 1: count the generator rejects; 2: output buffer too small for the method */
static void
entropy_case (int m, int ep, int variant)
{
  char sig[200];
  struct job j = { ep, 0, vh_methods[m].tag, D, 0, 0, 0, variant == 1 ? 99 : 0, variant == 2 ? 5 : 0, "", 0, 0 };
  if (variant == 2 && ep != 3)
    return;
  vh_ent_counter = 4242 + (uint64_t) m;
  unsigned char expect[64];
  int n = vh_methods[m].conf_nrbytes;
  vh_ent_fill (expect, (size_t) n, vh_ent_counter);
  wset_clear ();
  if (n >= 6)
    wset_add_buf (expect, (size_t) n, 7);
  vh_ledger_reset ();
  run_on_stack (&j);
  vh_stat ("evaluations", 1);
  vh_stat ("entropy_cases", 1);
  size_t w;
  int enc;
  snprintf (cj, sizeof cj, "{\"method\":\"%s\",\"entry\":\"%s\",\"prefix\":%s,\"request\":\"%s\",\"replay\":\"e:%d:%d:%d\"", vh_methods[m].name, epname[ep],
            vh_jstr (vh_methods[m].tag), variant == 0 ? "default" : variant == 1 ? "count 99 (rejected)" : "output_size 5 (too small)", m, ep, variant);
  const char *why = 0;
  if (j.isnull && m != M_BCRYPT_X && variant == 0)
    why = "auto-entropy gensalt failed";
  else if (rel_found >= 0)
    why = "drawn random bytes in a heap block at release time";
  else if (VH_SCAN_STACK && (enc = scan (stk, STK, &w)) >= 0)
    why = "drawn random bytes left on the stack (-O0 build)";
  if (why)
    {
      snprintf (sig, sizeof sig, "%s/method=%s", why, vh_methods[m].name);
      vh_viol (sig, "%s}", cj);
    }
}

/* digest primitives erase their context when finalised */
static int
allzero (const void *p, size_t n)
{
  for (size_t i = 0; i < n; i++)
    if (((const unsigned char *) p)[i])
      return 0;
  return 1;
}

static void
primitives (void)
{
  unsigned char msg[300], out[64];
  for (int i = 0; i < 300; i++)
    msg[i] = vh_fillP ((size_t) i);
  static const int lens[] = { 0, 1, 55, 56, 64, 111, 112, 128, 200, 300 };
  for (unsigned li = 0; li < sizeof lens / sizeof *lens; li++)
    {
      size_t n = (size_t) lens[li];
      const char *bad = 0;
      MD4_CTX m4;
      MD4_Init (&m4);
      MD4_Update (&m4, msg, n);
      MD4_Final (out, &m4);
      if (!allzero (&m4, sizeof m4))
        bad = "MD4_Final";
      MD5_CTX m5;
      MD5_Init (&m5);
      MD5_Update (&m5, msg, n);
      MD5_Final (out, &m5);
      if (!allzero (&m5, sizeof m5))
        bad = "MD5_Final";
      struct sha1_ctx s1;
      sha1_init_ctx (&s1);
      sha1_process_bytes (msg, &s1, n);
      sha1_finish_ctx (&s1, out);
      if (!allzero (&s1, sizeof s1))
        bad = "sha1_finish_ctx";
      SHA256_CTX s2;
      SHA256_Init (&s2);
      SHA256_Update (&s2, msg, n);
      SHA256_Final (out, &s2);
      if (!allzero (&s2, sizeof s2))
        bad = "SHA256_Final";
      SHA512_CTX s5;
      SHA512_Init (&s5);
      SHA512_Update (&s5, msg, n);
      SHA512_Final (out, &s5);
      if (!allzero (&s5, sizeof s5))
        bad = "SHA512_Final";
      HMAC_SHA256_CTX h2;
      HMAC_SHA256_Init (&h2, msg, n);
      HMAC_SHA256_Update (&h2, msg, n);
      HMAC_SHA256_Final (out, &h2);
      if (!allzero (&h2, sizeof h2))
        bad = "HMAC_SHA256_Final";
      gost_hmac_256_t gb;
      memset (&gb, 0x77, sizeof gb);
      gost_hmac256 (msg, 32 + (n % 33), msg, n, out, &gb);
      if (!allzero (&gb, sizeof gb))
        bad = "gost_hmac256";
      for (int bits = 256; bits <= 512; bits += 256)
        {
          GOST34112012Context gc;
          memset (&gc, 0x77, sizeof gc);
          GOST34112012Init (&gc, (unsigned int) bits);
          GOST34112012Update (&gc, msg, n);
          GOST34112012Final (&gc, out);
          if (!allzero (&gc, sizeof gc))
            bad = bits == 256 ? "GOST34112012Final(256)" : "GOST34112012Final(512)";
        }
      vh_stat ("evaluations", 9);
      vh_stat ("primitive_finals", 9);
      if (bad)
        {
          char sig[120];
          snprintf (sig, sizeof sig, "context-not-erased/%s", bad);
          vh_viol (sig, "{\"primitive\":\"%s\",\"message_length\":%zu,\"replay\":\"p\"}", bad, n);
        }
    }
}

/* short histories on one object: the erase invariant holds after every step */
static void
histories (void)
{
  static const int ms[] = { M_MD5, M_YESCRYPT, M_BCRYPT_B, M_SHA512, M_DES, M_SUNMD5 };
  char phrase[40];
  vh_fill (phrase, 33, 'P');
  for (unsigned a = 0; a < 6; a++)
    for (unsigned b = 0; b < 6; b++)
      for (int f = 0; f < 3; f++)
        {
          const char *seq[3] = { vh_cheap[ms[a]][0], f == 0 ? "$9$x" : f == 1 ? method_fail_setting (ms[b]) : "$1$sa:lt", vh_cheap[ms[b]][0] };
          memset (D, 0, sizeof *D);
          for (int s = 0; s < 3; s++)
            {
              if (!seq[s])
                continue;
              unsigned char before = (unsigned char) D->internal[100];
              (void) before;
              crypt_rn (phrase, seq[s], D, sizeof *D);
              vh_stat ("evaluations", 1);
              vh_stat ("history_steps", 1);
              if (!allzero (D->internal, sizeof D->internal) || !allzero (D->reserved, sizeof D->reserved) || D->initialized)
                {
                  vh_viol ("history/scratch-not-erased", "{\"sequence\":[%s,%s,%s],\"step\":%d,\"replay\":\"h\"}", vh_jstr (seq[0]), vh_jstr (seq[1]), vh_jstr (seq[2]), s);
                  return;
                }
            }
        }
}

/* salt lengths across one hash block of the KDF's first HMAC (scrypt, yescrypt, gost-yescrypt: the salt is PBKDF2's message;
   sha1crypt: HMAC text): the padding class of the salt selects different code paths, each with its own scratch to erase */
static void
salt_variant (int w, int L, int pk)
{
  static char ss[520], rpo[48];
  static const int wm[4] = { M_SCRYPT, M_YESCRYPT, M_GOST, M_SHA1 };
  static const char *const head[4] = { "$7$2/..../....", "$y$j/.$", "$gy$j/.$", "$sha1$20$" };
  if ((w == 1 || w == 2) && L % 4 == 1)
    return;
  size_t hl = strlen (head[w]);
  memcpy (ss, head[w], hl);
  for (int i = 0; i < L; i++)
    ss[hl + (size_t) i] = A64[(i * 7 + L) % 64];
  if ((w == 1 || w == 2) && L % 4 == 2)
    ss[hl + (size_t) L - 1] = A64[(strchr (A64, ss[hl + (size_t) L - 1]) - A64) & 3];
  if ((w == 1 || w == 2) && L % 4 == 3)
    ss[hl + (size_t) L - 1] = A64[(strchr (A64, ss[hl + (size_t) L - 1]) - A64) & 15];
  ss[hl + (size_t) L] = 0;
  snprintf (rpo, sizeof rpo, "A:%d:%d:%d", w, L, pk);
  alt_setting = ss;
  rp_override = rpo;
  /* L >= 330: past what any of these methods accepts - a failure reported from inside the method, late */
  one_case (wm[w], L >= 330 ? K_METHOD_FAIL : K_SUCCESS, pk == 0 ? 2 : pk == 1 ? 5 : 7, (L + pk) % 3);
  alt_setting = 0;
  rp_override = 0;
  vh_stat ("salt_length_variants", 1);
}

int
main (int argc, char **argv)
{
  vh_init (argc, argv);
  vh_mmap_cap = (size_t) 64 << 20;
  stk = aligned_alloc (4096, STK);
  D = aligned_alloc (64, sizeof *D);
  if (vh_replay && *vh_replay)
    {
      int a, b, c, d;
      if (sscanf (vh_replay, "e:%d:%d:%d", &a, &b, &c) == 3)
        entropy_case (a, b, c);
      else if (sscanf (vh_replay, "%d:%d:%d:%d", &a, &b, &c, &d) == 4)
        one_case (a, b, c, d);
      else if (vh_replay[0] == 'A')
        {
          int w, L, pk;
          if (sscanf (vh_replay, "A:%d:%d:%d", &w, &L, &pk) != 3)
            vh_internal ("bad replay token");
          salt_variant (w, L, pk);
        }
      else if (vh_replay[0] == 'p')
        primitives ();
      else
        histories ();
      vh_done ();
      return 0;
    }
  uint64_t idx = 0;
  if (vh_mine (idx++))
    primitives ();
  if (vh_mine (idx++))
    histories ();
  for (int m = 0; m < M_COUNT; m++)
    for (int ep = 3; ep <= 5; ep++)
      for (int variant = 0; variant < 3; variant++)
        if (vh_mine (idx++))
          entropy_case (m, ep, variant);
  for (int m = 0; m < M_COUNT && !vh_expired (); m++)
    for (int kind = 0; kind < NKIND; kind++)
      for (unsigned pli = 0; pli < sizeof plens / sizeof *plens; pli++)
        for (int ep = 0; ep < 3; ep++)
          {
            if (kind >= K_BADCHAR && kind <= K_UNKNOWN && pli % 4 && !vh_thorough)
              continue;
            if (!vh_thorough && m == M_SUNMD5 && pli % 3)
              continue;
            if (vh_mine (idx++))
              {
                one_case (m, kind, (int) pli, ep);
                if (kind == 0 && pli == 9 && ep == 0)
                  vh_sample ("{\"method\":\"%s\",\"outcome_kinds\":%d,\"phrase_lengths\":13,\"entry_points\":3,\"scanned\":\"object, released blocks/mappings, live blocks%s\"}",
                             vh_methods[m].name, NKIND, VH_SCAN_STACK ? ", 1 MiB call stack" : "");
              }
          }
  for (int L = 40; L <= 70 && !vh_expired (); L++)
    for (int w = 0; w < 4; w++)
      for (int pk = 0; pk < 3; pk++)
        if (vh_mine (idx++))
          salt_variant (w, L, pk);
  for (int L = 330; L <= 480 && !vh_expired (); L += 50)
    for (int w = 0; w < 4; w++)
      for (int pk = 0; pk < 3; pk++)
        if (vh_mine (idx++))
          salt_variant (w, L, pk);
  if (vh_thorough)
    for (int m = 0; m < M_COUNT && !vh_expired (); m++)
      for (int len = 6; len <= 511; len++)
        {
          if (m == M_SUNMD5 && len % 4)
            continue;
          if (vh_mine (idx++))
            one_case (m, K_SUCCESS, 1000 + len, len % 3);
        }
  vh_done ();
  return 0;
}
