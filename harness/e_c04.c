/* C04: memory safety and write confinement for every argument combination.
   Runs on the ASan+UBSan build (sanitizer as oracle) and on the MSan build
   (-DVH_MSAN: result must not depend on uninitialised object contents).
   Every string and object handed to the library is an exact-size heap block. */
#include "vh_rt.h"
#include "vh_methods.h"
#include "vh_grammar.h"
#include <crypt.h>
#include <limits.h>
#include <stdlib.h>
#ifdef VH_MSAN
#include <sanitizer/msan_interface.h>
#define POISON(p, n) ((void) 0)
#define UNPOISON(p, n) ((void) 0)
#else
#include <sanitizer/asan_interface.h>
#define POISON(p, n) ASAN_POISON_MEMORY_REGION (p, n)
#define UNPOISON(p, n) ASAN_UNPOISON_MEMORY_REGION (p, n)
#endif
#define TAILGUARD 48

static char cj[3000], cursig[96];
static struct vh_setlist L;

/* exact-size copies so that any over-read hits a redzone */
static char *
xdup (const char *s, size_t n)
{
  char *p = malloc (n + 1);
  memcpy (p, s, n);
  p[n] = 0;
  return p;
}

#define CANARY(i) ((char) (0xC3 ^ ((i) * 29)))

/* Call one hashing entry point with a data object placed at ALIGN inside an exact-size block.
   ep: 0 crypt_rn, 1 crypt_r, 2 crypt_ra (caller block), 3 crypt (static) */
static void
hash_case (const char *phrase, size_t plen, const char *setting, size_t slen, int ep, int align, int fill, const char *replay)
{
  char sig[200];
  char *P = xdup (phrase, plen), *S = xdup (setting, slen);
  size_t osz = sizeof (struct crypt_data);
  /* the object is followed by a guard zone that is both poisoned for instrumented code and pattern-filled, so that
     writes made on the library's behalf by uninstrumented libc routines (explicit_bzero, memset) are seen as well */
  char *blk = malloc (osz + (size_t) align + TAILGUARD);
  struct crypt_data *d = (struct crypt_data *) (blk + align);
  memset (blk, 0x3C, (size_t) align);
  memset (blk + align + osz, 0x3C, TAILGUARD);
  POISON (blk + align + osz, TAILGUARD);
  if (align)
    POISON (blk, (size_t) align);
  memset (d, fill ? 0xA5 : 0, osz);
#ifdef VH_MSAN
  if (fill)
    __msan_poison (d, osz);
#endif
  for (size_t i = 0; i < sizeof d->setting; i++)
    d->setting[i] = CANARY (i);
  for (size_t i = 0; i < sizeof d->input; i++)
    d->input[i] = CANARY (i + 7);
  snprintf (cj, sizeof cj, "{\"entry\":\"%s\",\"phrase_len\":%zu,\"setting_len\":%zu,\"setting\":%s,\"align\":%d,\"fill\":%d,\"replay\":\"%s\"",
            ep == 0 ? "crypt_rn" : ep == 1 ? "crypt_r" : ep == 2 ? "crypt_ra" : "crypt", plen, slen, vh_jstr (S), align, fill, replay);
  snprintf (cursig, sizeof cursig, "entry=%s/setting=%.12s", ep == 0 ? "crypt_rn" : ep == 1 ? "crypt_r" : ep == 2 ? "crypt_ra" : "crypt",
            vh_js (setting, slen > 8 ? 8 : slen));
  char *r = 0;
  void *dp = d;
  int dsz = (int) osz;
  int k = VH_TRY (4000);
  if (k == 0)
    {
      switch (ep)
        {
        case 0: r = crypt_rn (P, S, d, (int) osz); break;
        case 1: r = crypt_r (P, S, d); break;
        case 2:
          /* crypt_ra with a caller block: give it a separately malloc'd object so realloc semantics are real */
          dp = malloc (osz);
          memcpy (dp, d, osz);
          r = crypt_ra (P, S, &dp, &dsz);
          break;
        default: r = crypt (P, S); break;
        }
      VH_END ();
    }
  vh_stat ("evaluations", 1);
  if (k == VH_TIMEOUT)
    {
      vh_stat ("budget_skipped", 1);
      goto out;                 /* interrupted by the case timer: nothing is asserted */
    }
  if (k)
    {
      snprintf (sig, sizeof sig, "fatal/%s/%.60s/%s", vh_fatal_name (k), vh_fatal_msg, cursig);
      vh_viol (sig, "%s,\"outcome\":\"%s\"}", cj, vh_js (vh_fatal_msg, strlen (vh_fatal_msg)));
      goto out;
    }
  UNPOISON (blk, osz + (size_t) align + TAILGUARD);
  for (size_t i = 0; i < TAILGUARD + (size_t) align; i++)
    {
      size_t off = i < (size_t) align ? i : (size_t) align + osz + (i - (size_t) align);
      if ((unsigned char) blk[off] != 0x3C && ep != 2 && ep != 3)
        {
          snprintf (sig, sizeof sig, "wrote-outside-the-data-object/%s", cursig);
          vh_viol (sig, "%s,\"offset_from_object_start\":%ld}", cj, (long) off - (long) align);
          goto out;
        }
    }
  struct crypt_data *o = ep == 2 ? dp : ep == 3 ? 0 : d;
  if (o)
    {
      for (size_t i = 0; i < sizeof o->setting; i++)
        if (o->setting[i] != CANARY (i))
          {
            snprintf (sig, sizeof sig, "wrote-application-field/setting/%s", cursig);
            vh_viol (sig, "%s,\"field\":\"setting\",\"offset\":%zu}", cj, i);
            goto out;
          }
      for (size_t i = 0; i < sizeof o->input; i++)
        if (o->input[i] != CANARY (i + 7))
          {
            snprintf (sig, sizeof sig, "wrote-application-field/input/%s", cursig);
            vh_viol (sig, "%s,\"field\":\"input\",\"offset\":%zu}", cj, i);
            goto out;
          }
      if (r && r != o->output)
        {
          snprintf (sig, sizeof sig, "result-outside-output/%s", cursig);
          vh_viol (sig, "%s}", cj);
          goto out;
        }
      if (!memchr (o->output, 0, sizeof o->output))
        {
          snprintf (sig, sizeof sig, "output-not-terminated/%s", cursig);
          vh_viol (sig, "%s}", cj);
          goto out;
        }
    }
  if (r)
    {
      vh_stat ("successes", 1);
      size_t rl = strnlen (r, CRYPT_OUTPUT_SIZE);
      if (rl >= CRYPT_OUTPUT_SIZE)
        {
          snprintf (sig, sizeof sig, "result-not-terminated/%s", cursig);
          vh_viol (sig, "%s}", cj);
          goto out;
        }
#ifdef VH_MSAN
      if (__msan_test_shadow (r, rl + 1) != -1)
        {
          snprintf (sig, sizeof sig, "result-uninitialised/%s", cursig);
          vh_viol (sig, "%s,\"first_poisoned_offset\":%ld}", cj, (long) __msan_test_shadow (r, rl + 1));
          goto out;
        }
#endif
      if (vh_distinct (vh_hash (r, rl, 3)))
        vh_stat ("distinct_nontrivial", 1);
    }
  else
    vh_stat ("failures", 1);
out:
  UNPOISON (blk, osz + (size_t) align + TAILGUARD);
  if (ep == 2 && dp != d)
    free (dp);
  free (blk);
  free (P);
  free (S);
}

/* the non-hashing entry points on the same string */
static void
aux_case (const char *setting, size_t slen, const char *replay)
{
  char *S = xdup (setting, slen);
  char sig[200];
  snprintf (cj, sizeof cj, "{\"entry\":\"checksalt+gensalt\",\"setting_len\":%zu,\"setting\":%s,\"replay\":\"%s\"", slen, vh_jstr (S), replay);
  snprintf (cursig, sizeof cursig, "entry=checksalt+gensalt");
  unsigned char *rb = malloc (16);
  for (int i = 0; i < 16; i++)
    rb[i] = vh_fillP ((size_t) i);
  char *out = malloc (CRYPT_GENSALT_OUTPUT_SIZE);
  int k = VH_TRY (2000);
  if (k == 0)
    {
      (void) crypt_checksalt (S);
      char *g = crypt_gensalt_rn (S, 0, (const char *) rb, 16, out, CRYPT_GENSALT_OUTPUT_SIZE);
      if (g && strlen (g) >= CRYPT_GENSALT_OUTPUT_SIZE)
        vh_viol ("gensalt-not-terminated", "%s}", cj);
      char *g2 = crypt_gensalt_ra (S, 0, (const char *) rb, 16);
      free (g2);
      VH_END ();
    }
  vh_stat ("evaluations", 3);
  if (k && k != VH_TIMEOUT)
    {
      snprintf (sig, sizeof sig, "fatal/%s/%.60s/%s", vh_fatal_name (k), vh_fatal_msg, cursig);
      vh_viol (sig, "%s,\"outcome\":\"%s\"}", cj, vh_js (vh_fatal_msg, strlen (vh_fatal_msg)));
    }
  free (out);
  free (rb);
  free (S);
}

static const unsigned char edit_bytes[] = { 0x01, 0x09, 0x0a, 0x1f, 0x20, '$', ',', ':', ';', '*', '!', '\\', '.', '/', '0', '9', 'A', 'z', '~',
  '=', 0x7f, 0x80, 0xff, '_'
};
#define NEDIT ((int) sizeof edit_bytes)

/* base settings whose single-edit neighbourhood is enumerated completely */
static const char *const extra_base[] = {
  "$y$j75..$saltSALTsalt$", "$y$j750./$ABCD$", "$y$.4/$saltSALT", "$y$/4/$saltSALT", "$gy$j75/.$saltSALTsalt$",
  "$6$rounds=1001$saltSALTsalt$", "$5$rounds=1001$saltSALTsalt$", "$sha1$100$saltSALT$", "$md5$saltSALT$", "$md5$saltSALT$$",
  "$md5,rounds=10$saltSALT$", "$1$saltSALT$", "$3$$8846f7eaee8fb117ad06bdd830b7586c", "_1...saltZOjRKS1wtNE",
  "abhfCpXqd4GrI", "abhfCpXqd4GrIatlJWV.Y872", "$2b$04$abcdefghijklmnopqrstuuqREtd3VJD2QVZbuFskFSLk6eRIrQoOS",
  "$7$4/..../....saltSALT$y.Xd1ULf10YxmTTsUmOi0l81Xwte/2cufn5gn11Fzc8", "*0", "*1", "", "$", "$$", "$9$salt",
};
#define NEXTRA ((int) (sizeof extra_base / sizeof *extra_base))

static int
nbase (void)
{
  return 2 * M_COUNT + NEXTRA;
}

static const char *
base_setting (int b)
{
  if (b < 2 * M_COUNT)
    return vh_cheap[b / 2][b % 2];
  return extra_base[b - 2 * M_COUNT];
}

/* slab e1: every single-edit neighbour of base B: kind 0 substitution, 1 deletion, 2 duplication, 3 truncation */
static void
neighbours (int b, size_t pos)
{
  const char *s = base_setting (b);
  size_t n = strlen (s);
  char buf[VH_SETMAX], rp[64];
  uint64_t c = pos * 31;
  if (pos > n)
    return;
    {
      for (int e = 0; e < NEDIT + 3; e++, c++)
        {
          size_t m = 0;
          if (e < NEDIT)
            {
              if (pos == n)
                {               /* append */
                  memcpy (buf, s, n);
                  buf[n] = (char) edit_bytes[e];
                  m = n + 1;
                }
              else
                {
                  memcpy (buf, s, n);
                  buf[pos] = (char) edit_bytes[e];
                  m = n;
                }
            }
          else if (e == NEDIT)
            {                   /* deletion */
              if (pos == n)
                continue;
              memcpy (buf, s, pos);
              memcpy (buf + pos, s + pos + 1, n - pos - 1);
              m = n - 1;
            }
          else if (e == NEDIT + 1)
            {                   /* duplication */
              if (pos == n)
                continue;
              memcpy (buf, s, pos + 1);
              memcpy (buf + pos + 1, s + pos, n - pos);
              m = n + 1;
            }
          else
            {                   /* truncation */
              memcpy (buf, s, pos);
              m = pos;
            }
          buf[m] = 0;
          snprintf (rp, sizeof rp, "n:%d:%zu:%d", b, pos, e);
          int ep = (int) (c % 4), align = (int) ((c / 4) % 16), fill = (int) ((c / 64) % 2);
          hash_case ("pw", 2, buf, strlen (buf), ep, align, fill, rp);
          if (e >= NEDIT || e % 4 == 0)
            aux_case (buf, strlen (buf), rp);
        }
    }
}

/* slab s: salt / parameter stretching: the method's setting with its salt field at length LEN */
static const int stretch_extra[] = { 1000, 4096, 32767, 32768, 40000, 70000 };

static void
stretch (int m, int len, int term)
{
  static char buf[70100];
  char rp[64];
  const char *head;
  switch (m)
    {
    case M_YESCRYPT: head = "$y$j/.$"; break;
    case M_GOST: head = "$gy$j/.$"; break;
    case M_SCRYPT: head = "$7$2/..../...."; break;
    case M_BCRYPT_B: head = "$2b$04$"; break;
    case M_BCRYPT_Y: head = "$2y$04$"; break;
    case M_BCRYPT_A: head = "$2a$04$"; break;
    case M_BCRYPT_X: head = "$2x$04$"; break;
    case M_SHA512: head = "$6$rounds=1000$"; break;
    case M_SHA256: head = "$5$rounds=1000$"; break;
    case M_SHA1: head = "$sha1$2$"; break;
    case M_SUNMD5: head = "$md5$"; break;
    case M_MD5: head = "$1$"; break;
    case M_NT: head = "$3$"; break;
    case M_BSDI: head = "_/..."; break;
    default: head = ""; break;
    }
  size_t hl = strlen (head);
  memcpy (buf, head, hl);
  vh_salt (buf + hl, len, A64, len);
  size_t n = hl + (size_t) len;
  if (term)
    buf[n++] = '$';
  buf[n] = 0;
  snprintf (rp, sizeof rp, "s:%d:%d:%d", m, len, term);
  if (m == M_SUNMD5 && len > 8 && len < 360 && (len % 8) && !(len >= 350))
    return;                     /* 6 ms each: every 8th length, and every length near the output limit */
  hash_case ("pw", 2, buf, n, len % 4, len % 16, (len / 16) % 2, rp);
  if (len % 16 == 0 || len > 600)
    aux_case (buf, n, rp);
}

/* slab p: phrase lengths 0..600 and 4096 */
static void
phrases (int m, int len)
{
  static char ph[5000];
  char rp[64];
  vh_fill (ph, (size_t) len, 'P');
  snprintf (rp, sizeof rp, "p:%d:%d", m, len);
  if ((m == M_SUNMD5 || m == M_SHA512 || m == M_SHA256) && len < 500 && (len % 8))
    return;
  hash_case (ph, (size_t) len, vh_cheap[m][0], strlen (vh_cheap[m][0]), len % 4, (len / 4) % 16, (len / 64) % 2, rp);
}

/* slab d: all alignments x fills x entry points, and crypt_rn size arguments with exact blocks */
static void
placement (int m, int align, int fill, int ep)
{
  char rp[64];
  snprintf (rp, sizeof rp, "d:%d:%d:%d:%d", m, align, fill, ep);
  hash_case ("correct horse", 13, vh_cheap[m][1], strlen (vh_cheap[m][1]), ep, align, fill, rp);
}

static const int rn_sizes[] = { INT_MIN, -1, 0, 1, 2, 3, 13, 383, 384, 385, 32767, 32768, 32769 };

static void
rn_size (int m, int zi)
{
  int size = rn_sizes[zi];
  size_t real = size > 0 ? (size_t) size : 0;
  char *blk = malloc (real ? real : 1);
  char *obj = real ? blk : blk + 1;     /* size <= 0: pointer to the end of a 1-byte block */
  char sig[160];
  memset (blk, 0x5A, real ? real : 1);
  snprintf (cj, sizeof cj, "{\"entry\":\"crypt_rn\",\"size\":%d,\"setting\":%s,\"replay\":\"z:%d:%d\"", size, vh_jstr (vh_cheap[m][0]), m, zi);
  snprintf (cursig, sizeof cursig, "entry=crypt_rn/size=%d", size);
  char *S = xdup (vh_cheap[m][0], strlen (vh_cheap[m][0]));
  char *r = 0;
  int k = VH_TRY (4000);
  if (k == 0)
    {
      r = crypt_rn ("pw", S, obj, size);
      VH_END ();
    }
  vh_stat ("evaluations", 1);
  if (k && k != VH_TIMEOUT)
    {
      snprintf (sig, sizeof sig, "fatal/%s/%.60s/%s", vh_fatal_name (k), vh_fatal_msg, cursig);
      vh_viol (sig, "%s,\"outcome\":\"%s\"}", cj, vh_js (vh_fatal_msg, strlen (vh_fatal_msg)));
    }
  else if (r && (size_t) size < sizeof (struct crypt_data))
    {
      snprintf (sig, sizeof sig, "undersized-object-accepted/%s", cursig);
      vh_viol (sig, "%s}", cj);
    }
  free (S);
  free (blk);
}

/* slab g: gensalt arguments with exact-size rbytes and output blocks */
static const int g_sizes[] = { 1, 2, 3, 4, 8, 10, 14, 15, 29, 30, 31, 64, 191, 192, 256 };
static const unsigned long g_counts[] = { 0, 1, 4, 6, 11, 31, 1000, 999999999UL, 4294967295UL, ULONG_MAX };

static void
gensalt_case (int pi, int ci, int nrb, int zi)
{
  static const char *const gp[] = { "$y$", "$gy$", "$7$", "$2b$", "$2y$", "$2a$", "$2x$", "$6$", "$5$", "$sha1", "$md5", "$1$", "$3$", "_", "",
    "ab", 0, "$9$", "*0", "$6$rounds=1000$abcdefgh$", "$2b$05$......................", "\x80", "$y", "$"
  };
  char sig[200];
  int size = g_sizes[zi];
  unsigned char *rb = malloc (nrb ? (size_t) nrb : 1);
  for (int i = 0; i < nrb; i++)
    rb[i] = vh_fillP ((size_t) i);
  char *out = malloc ((size_t) size);
  char *P = gp[pi] ? xdup (gp[pi], strlen (gp[pi])) : 0;
  snprintf (cj, sizeof cj, "{\"entry\":\"crypt_gensalt_rn\",\"prefix\":%s,\"count\":%lu,\"nrbytes\":%d,\"output_size\":%d,\"replay\":\"g:%d:%d:%d:%d\"",
            vh_jstr (gp[pi]), g_counts[ci], nrb, size, pi, ci, nrb, zi);
  snprintf (cursig, sizeof cursig, "entry=crypt_gensalt_rn/prefix=%s", gp[pi] ? gp[pi] : "(null)");
  int k = VH_TRY (2000);
  if (k == 0)
    {
      char *r = crypt_gensalt_rn (P, g_counts[ci], (const char *) (nrb ? rb : rb + 1), nrb, out, size);
      if (r && !memchr (out, 0, (size_t) size))
        vh_viol ("gensalt-not-terminated", "%s}", cj);
      if (zi == 13)
        {
          char *r2 = crypt_gensalt (P, g_counts[ci], (const char *) (nrb ? rb : rb + 1), nrb);
          char *r3 = crypt_gensalt_ra (P, g_counts[ci], (const char *) (nrb ? rb : rb + 1), nrb);
          (void) r2;
          free (r3);
          vh_stat ("evaluations", 2);
        }
      VH_END ();
    }
  vh_stat ("evaluations", 1);
  if (k && k != VH_TIMEOUT)
    {
      snprintf (sig, sizeof sig, "fatal/%s/%.60s/%s", vh_fatal_name (k), vh_fatal_msg, cursig);
      vh_viol (sig, "%s,\"outcome\":\"%s\"}", cj, vh_js (vh_fatal_msg, strlen (vh_fatal_msg)));
    }
  free (P);
  free (out);
  free (rb);
}
#define NGP 24

static void
generated (int si)
{
  char rp[64];
  snprintf (rp, sizeof rp, "a:%d", si);
  hash_case ("pw", 2, L.v[si].s, strlen (L.v[si].s), si % 4, (si / 4) % 16, (si / 64) % 2, rp);
}

int
main (int argc, char **argv)
{
  vh_init (argc, argv);
  vh_mmap_cap = (size_t) 64 << 20;
  vh_fatal_exit = 1;
  vh_cur_case = cj;
  vh_cur_sig = cursig;
  strcpy (cj, "{\"case\":\"startup\"");
  vh_gen_all (&L, vh_thorough);
  if (vh_replay && *vh_replay)
    {
      int a, b, c, e;
      size_t pos;
      if (sscanf (vh_replay, "n:%d:%zu:%d", &a, &pos, &e) == 3)
        neighbours (a, pos);    /* all edits at that position (cheap) */
      else if (sscanf (vh_replay, "s:%d:%d:%d", &a, &b, &c) == 3)
        stretch (a, b, c);
      else if (sscanf (vh_replay, "p:%d:%d", &a, &b) == 2)
        phrases (a, b);
      else if (sscanf (vh_replay, "d:%d:%d:%d:%d", &a, &b, &c, &e) == 4)
        placement (a, b, c, e);
      else if (sscanf (vh_replay, "z:%d:%d", &a, &b) == 2)
        rn_size (a, b);
      else if (sscanf (vh_replay, "g:%d:%d:%d:%d", &a, &b, &c, &e) == 4)
        gensalt_case (a, b, c, e);
      else if (sscanf (vh_replay, "a:%d", &a) == 1)
        generated (a);
      else
        vh_internal ("bad replay token");
      vh_done ();
      return 0;
    }
  uint64_t idx = 0;
  /* salt stretching first: simplest inputs, historically the productive slab */
  for (int m = 0; m < M_COUNT; m++)
    for (int term = 0; term < 2; term++)
      {
        for (int len = 0; len <= 600; len++)
          if (vh_mine (idx++))
            stretch (m, len, term);
        for (unsigned i = 0; i < sizeof stretch_extra / sizeof *stretch_extra; i++)
          if (vh_mine (idx++))
            stretch (m, stretch_extra[i], term);
      }
  vh_stat ("slab_stretch_done", 1);
  for (int m = 0; m < M_COUNT; m++)
    {
      for (int len = 0; len <= 600; len++)
        if (vh_mine (idx++))
          phrases (m, len);
      if (vh_mine (idx++))
        phrases (m, 4096);
    }
  for (int m = 0; m < M_COUNT; m++)
    for (int align = 0; align < 16; align++)
      for (int fill = 0; fill < 2; fill++)
        for (int ep = 0; ep < 4; ep++)
          if (vh_mine (idx++))
            placement (m, align, fill, ep);
  for (int m = 0; m < M_COUNT; m++)
    for (unsigned zi = 0; zi < sizeof rn_sizes / sizeof *rn_sizes; zi++)
      if (vh_mine (idx++))
        rn_size (m, (int) zi);
  vh_stat ("slab_placement_done", 1);
  for (int pi = 0; pi < NGP; pi++)
    for (unsigned ci = 0; ci < sizeof g_counts / sizeof *g_counts; ci++)
      for (int nrb = 0; nrb <= 72; nrb++)
        {
          int n = nrb <= 70 ? nrb : nrb == 71 ? 255 : 256;
          if (!vh_thorough && ci > 0 && n > 20 && n != 64 && n != 65 && n < 255)
            continue;
          for (unsigned zi = 0; zi < sizeof g_sizes / sizeof *g_sizes; zi++)
            if (vh_mine (idx++))
              gensalt_case (pi, (int) ci, n, (int) zi);
        }
  vh_stat ("slab_gensalt_done", 1);
  for (int si = 0; si < L.n && !vh_expired (); si++)
    if (L.v[si].cost < 2 && vh_mine (idx++))
      generated (si);
  vh_stat ("slab_generated_done", 1);
  int nb = nbase ();
  for (int b = 0; b < nb && !vh_expired (); b++)
    for (size_t pos = 0; pos <= strlen (base_setting (b)); pos++)
      if (vh_mine (idx++))
        {
          neighbours (b, pos);
          if (pos == 3)
            vh_sample ("{\"slab\":\"single-edit neighbourhood\",\"base\":%s,\"position\":%zu,\"edits\":%d}", vh_jstr (base_setting (b)), pos, NEDIT + 3);
        }
  vh_stat ("slab_neighbours_done", 1);
  vh_done ();
  return 0;
}
