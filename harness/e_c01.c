/* C01 round trip, and C06 well-formedness (mode "c06") over the same enumeration.
   Slabs: (a) every grammar-generated setting x boundary phrases, (b) every phrase
   length 0..511 x 2 canonical settings, (c) DES family: all salts x setting lengths
   x phrase lengths around the descrypt/bigcrypt seam, (d) for each success the hash
   part replaced by 3 same-length texts of the method's alphabet and truncated. */
#include "vh_rt.h"
#include "vh_methods.h"
#include "vh_grammar.h"
#include <crypt.h>
#include <stdlib.h>

static int mode_c06;
static struct crypt_data *d1, *d2;
static char cj[2600];

#include "vh_shape.h"

static char *
do_crypt (const char *p, const char *s, struct crypt_data *d, int *fatal)
{
  char *r = 0;
  /* arbitrary prior contents of the object (a different pattern per object): the answer must not depend on them */
  memset (d, d == d1 ? 0xA5 : 0x3B, sizeof *d);
  /* arbitrary errno on entry (what an earlier, unrelated call left behind): the answer must not depend on it either */
  static const int entry_errno[4] = { 0, ERANGE, EINVAL, ENOMEM };
  int ee = entry_errno[(vh_hash_str (s, 77) + (d == d1 ? 0u : 1u)) % 4];
  int k = VH_TRY (0);
  if (k == 0)
    {
      errno = ee;
      r = crypt_rn (p, s, d, sizeof *d);
      VH_END ();
    }
  *fatal = k;
  vh_stat ("evaluations", 1);
  if (!r && errno == ENOMEM && vh_mmap_capped)
    {
      vh_mmap_capped = 0;
      vh_stat ("budget_skipped", 1);
    }
  return r;
}

/* one (phrase, setting) case; variants: also run slab (d) */
static void
round_trip (const char *phrase, size_t plen, const char *S, int gm, int variants, const char *replay)
{
  char sig[200], H1[CRYPT_OUTPUT_SIZE];
  int fatal;
  snprintf (cj, sizeof cj, "{\"phrase_len\":%zu,\"phrase\":\"%s\",\"setting\":%s,\"replay\":\"%s\"", plen, vh_js (phrase, plen > 40 ? 40 : plen),
            vh_jstr (S), replay);
  char *h = do_crypt (phrase, S, d1, &fatal);
  if (fatal)
    {
      snprintf (sig, sizeof sig, "fatal/%s/%.50s/method=%s", vh_fatal_name (fatal), vh_fatal_msg, vh_methods[gm].name);
      vh_viol (sig, "%s,\"outcome\":\"%s\"}", cj, vh_js (vh_fatal_msg, strlen (vh_fatal_msg)));
      return;
    }
  if (!h)
    {
      vh_stat ("first_call_failed", 1);
      return;
    }
  vh_stat ("successes", 1);
  if (strlen (h) >= sizeof H1)
    {
      vh_viol ("result-too-long", "%s}", cj);
      return;
    }
  strcpy (H1, h);
  int m = method_of (H1);
  if (vh_distinct (vh_hash_str (H1, 1)))
    vh_stat ("distinct_nontrivial", 1);
  if (mode_c06)
    {
      check_shape (phrase, plen, S, H1, gm, cj, d2);
      return;
    }
  /* (1) re-hash with H as the setting */
  h = do_crypt (phrase, H1, d2, &fatal);
  if (fatal || !h || strcmp (h, H1))
    {
      if (!fatal && !h && errno == ERANGE && strlen (H1) + 45 > CRYPT_OUTPUT_SIZE)
        snprintf (sig, sizeof sig, "rehash-refused-ERANGE-result-longer-than-339/method=%s", vh_methods[m].name);
      else
        snprintf (sig, sizeof sig, "rehash-differs/method=%s", vh_methods[m].name);
      vh_viol (sig, "%s,\"H\":%s,\"rehash\":%s}", cj, vh_jstr (H1), vh_jstr (fatal ? "(fatal)" : h));
      return;
    }
  if (!variants)
    return;
  /* (d) hash part replaced by same-length text of the hash alphabet */
  size_t ho = hash_off (m, H1), hl = strlen (H1) - ho;
  const char *alpha = vh_methods[m].hash_alpha;
  char V[CRYPT_OUTPUT_SIZE + 8];
  for (int v = 0; v < 3 && hl > 0; v++)
    {
      strcpy (V, H1);
      for (size_t i = 0; i < hl; i++)
        V[ho + i] = v == 0 ? alpha[0] : v == 1 ? alpha[strlen (alpha) - 1] : H1[ho + hl - 1 - i];
      if (!strcmp (V, H1))
        continue;
      h = do_crypt (phrase, V, d2, &fatal);
      vh_stat ("hash_part_variants", 1);
      if (fatal || !h || strcmp (h, H1))
        {
          snprintf (sig, sizeof sig, "hash-part-influences-result/method=%s", vh_methods[m].name);
          vh_viol (sig, "%s,\"H\":%s,\"setting_variant\":%s,\"result\":%s}", cj, vh_jstr (H1), vh_jstr (V), vh_jstr (fatal ? "(fatal)" : h));
          return;
        }
    }
  /* truncation to the setting part (see DESIGN C01 for the per-method rule) */
  int t0 = 1, t1 = 0;
  size_t cut0 = ho, cut1 = ho;
  if (H1[0] == '$' && !(m >= M_BCRYPT_B && m <= M_BCRYPT_X))
    {
      cut0 = ho - 1;            /* without the '$' that introduces the hash */
      cut1 = ho;                /* with it */
      t1 = 1;
      if (m == M_SUNMD5)
        t1 = 0;                 /* a trailing '$' is part of a sunmd5 salt */
      if (m == M_SCRYPT && memchr (H1 + 14, '$', cut0 > 14 ? cut0 - 14 : 0))
        t0 = 0;                 /* '$' inside a $7$ salt: the terminator is not optional */
    }
  if ((m == M_BIG || m == M_DES) && plen > 8)
    t0 = 0;                     /* setting length selects descrypt vs bigcrypt (documented) */
  for (int t = 0; t < 2; t++)
    {
      if (!(t ? t1 : t0))
        continue;
      size_t cut = t ? cut1 : cut0;
      memcpy (V, H1, cut);
      V[cut] = 0;
      h = do_crypt (phrase, V, d2, &fatal);
      vh_stat ("truncation_variants", 1);
      if (fatal || !h || strcmp (h, H1))
        {
          snprintf (sig, sizeof sig, "setting-part-alone-differs/method=%s", vh_methods[m].name);
          vh_viol (sig, "%s,\"H\":%s,\"setting_variant\":%s,\"result\":%s}", cj, vh_jstr (H1), vh_jstr (V), vh_jstr (fatal ? "(fatal)" : h));
          return;
        }
    }
}

static struct vh_setlist L;

/* phrase number J of the boundary family: length Lb[j/2], fill A or P */
static size_t
mk_phrase (char *dst, int j)
{
  size_t n = (size_t) vh_Lb[j / 2];
  vh_fill (dst, n, (j & 1) ? 'P' : 'A');
  return n;
}

static int
phrase_selected (int cost, int j, int si)
{
  int li = j / 2, P = j & 1;
  int len = vh_Lb[li];
  if (vh_thorough)
    {
      if (cost == 0)
        return (li % 3 == (P ? 1 : 0)) || len == 0 || len == 8 || len == 9 || (len == 511 && P);
      return P && (len == 0 || len == 9 || len == 17 || len == 73 || len == 129 || (len == 511 && si % 4 == 0));
    }
  if (cost == 0)
    return (len == 0 && !P) || (len == 8 && !P) || (len == 9 && P) || (len == 17 && P) || (len == 73 && P) || (len == 129 && !P)
      || (len == 511 && P && si % 8 == 0);
  return P && (len == 0 || len == 17);
}

static void
slab_a (int si, int j)
{
  char ph[520], rp[64];
  size_t n = mk_phrase (ph, j);
  snprintf (rp, sizeof rp, "a:%d:%d", si, j);
  round_trip (ph, n, L.v[si].s, L.v[si].method, n == 9 || (vh_thorough && (n == 0 || n == 129)), rp);
}

static void
slab_b (int m, int which, int len)
{
  char ph[520], rp[64];
  vh_fill (ph, (size_t) len, 'P');
  snprintf (rp, sizeof rp, "b:%d:%d:%d", m, which, len);
  round_trip (ph, (size_t) len, vh_cheap[m][which], m, len % 64 == 0, rp);
}

static const int des_setlens[] = { 2, 3, 12, 13, 14, 15, 23, 24, 25, 178 };
static const int des_phrlens[] = { 0, 1, 2, 3, 4, 5, 6, 7, 8, 9, 10, 11, 12, 13, 14, 15, 16, 17, 24, 25, 127, 128, 129 };

static void
slab_c (int salt, int sli, int pli)
{
  char S[200], ph[200], rp[64];
  S[0] = A64[salt & 63];
  S[1] = A64[salt >> 6];
  vh_salt (S + 2, des_setlens[sli] - 2, A64, salt);
  vh_fill (ph, (size_t) des_phrlens[pli], (salt & 1) ? 'P' : 'A');
  snprintf (rp, sizeof rp, "c:%d:%d:%d", salt, sli, pli);
  round_trip (ph, (size_t) des_phrlens[pli], S, des_setlens[sli] > 13 ? M_BIG : M_DES, (salt % 64) == 0, rp);
}

/* (e) settings whose result comes close to the 384-byte output field: every salt length 250..400 for the methods
   that echo an unbounded salt, with each terminator form */
static void
slab_e (int which, int len, int term)
{
  static const char *const heads[] = { "$md5$", "$md5,rounds=7$", "$sha1$3$", "$7$2/..../....", "$6$rounds=1000$", "$1$", "$sha1$24$", "$sha1$300$", "$sha1$4096$", "$sha1$65536$" };
  static const int hm[] = { M_SUNMD5, M_SUNMD5, M_SHA1, M_SCRYPT, M_SHA512, M_MD5, M_SHA1, M_SHA1, M_SHA1, M_SHA1 };
  static const char *const terms[] = { "", "$", "$$" };
  char S[VH_SETMAX], rp[64];
  size_t hl = strlen (heads[which]);
  memcpy (S, heads[which], hl);
  vh_salt (S + hl, len, A64, len);
  strcpy (S + hl + (size_t) len, terms[term]);
  snprintf (rp, sizeof rp, "e:%d:%d:%d", which, len, term);
  round_trip ("pw", 2, S, hm[which], len % 16 == 0, rp);
}

/* (i) salts that look like the method's own option field, behind every spelling of that field (explicit default value
   included): the canonical form of the result must still parse back into the same options and the same salt */
static const char *const iheads[] = { "$5$", "$5$rounds=1000$", "$5$rounds=1001$", "$5$rounds=4999$", "$5$rounds=5000$", "$5$rounds=5001$", "$5$rounds=9999$",
  "$6$", "$6$rounds=1000$", "$6$rounds=1001$", "$6$rounds=4999$", "$6$rounds=5000$", "$6$rounds=5001$", "$6$rounds=9999$",
  "$1$", "$md5$", "$md5,rounds=0$", "$md5,rounds=1$", "$md5,rounds=904$", "$sha1$1$", "$sha1$100$", "$sha1$1000$" };
static const int ihm[] = { M_SHA256, M_SHA256, M_SHA256, M_SHA256, M_SHA256, M_SHA256, M_SHA256, M_SHA512, M_SHA512, M_SHA512, M_SHA512, M_SHA512, M_SHA512, M_SHA512,
  M_MD5, M_SUNMD5, M_SUNMD5, M_SUNMD5, M_SUNMD5, M_SHA1, M_SHA1, M_SHA1 };
static const char *const isalts[] = { "rounds=1234", "rounds=", "rounds=x", "rounds=5000", "rounds=1000", "rounds=999", "rounds=99999999999999999999", "rounds", "rounds=12$ab",
  "rounds=5000$rounds=7", ",rounds=5", "rounds=1,x", "1234", "100", "", "rounds=0", "rounds=4096" };
#define NIHEAD ((int) (sizeof iheads / sizeof *iheads))
#define NISALT ((int) (sizeof isalts / sizeof *isalts))
static void
slab_i (int hd, int sa, int term)
{
  static const char *const terms[] = { "", "$", "$$" };
  char S[200], rp[64];
  snprintf (S, sizeof S, "%s%s%s", iheads[hd], isalts[sa], terms[term]);
  snprintf (rp, sizeof rp, "i:%d:%d:%d", hd, sa, term);
  round_trip ("pw", 2, S, ihm[hd], 1, rp);
  vh_stat ("option_lookalike_salts", 1);
}

static const char *const wide_rounds[4] = { "$6$rounds=10000000$ab", "$5$rounds=10000000$ab", "$6$rounds=100000000$ab", "$5$rounds=100000000$ab" };

int
main (int argc, char **argv)
{
  vh_init (argc, argv);
  for (int i = 1; i < argc; i++)
    if (!strcmp (argv[i], "c06"))
      mode_c06 = 1;
  vh_mmap_cap = (size_t) 64 << 20;
  d1 = calloc (1, sizeof *d1);
  d2 = calloc (1, sizeof *d2);
  vh_gen_all (&L, vh_thorough);
  if (vh_replay && *vh_replay)
    {
      int a, b, c;
      if (sscanf (vh_replay, "a:%d:%d", &a, &b) == 2)
        slab_a (a, b);
      else if (sscanf (vh_replay, "b:%d:%d:%d", &a, &b, &c) == 3)
        slab_b (a, b, c);
      else if (sscanf (vh_replay, "c:%d:%d:%d", &a, &b, &c) == 3)
        slab_c (a, b, c);
      else if (sscanf (vh_replay, "e:%d:%d:%d", &a, &b, &c) == 3)
        slab_e (a, b, c);
      else if (sscanf (vh_replay, "i:%d:%d:%d", &a, &b, &c) == 3 && a >= 0 && a < NIHEAD && b >= 0 && b < NISALT && c >= 0 && c < 3)
        slab_i (a, b, c);
      else if (sscanf (vh_replay, "h:%d", &a) == 1 && a >= 0 && a < 4)
        round_trip ("pw", 2, wide_rounds[a], a % 2 ? M_SHA256 : M_SHA512, 0, vh_replay);
      else if (mode_c06 && !strncmp (vh_replay, "div:", 4))
        shape_diversity (atoi (vh_replay + 4), d1, d2);
      else
        vh_internal ("bad replay token");
      vh_done ();
      return 0;
    }
  uint64_t idx = 0;
  /* (b) simplest first: canonical settings, every phrase length */
  for (int m = 0; m < M_COUNT && !vh_expired (); m++)
    for (int w = 0; w < 2; w++)
      for (int len = 0; len < 512; len++)
        {
          if (!vh_thorough && (m == M_SUNMD5) && (len % 4))
            continue;
          if (vh_mine (idx++))
            slab_b (m, w, len);
        }
  vh_stat ("slab_b_done", 1);
  /* (a) grammar settings x boundary phrases */
  for (int si = 0; si < L.n && !vh_expired (); si++)
    {
      if (L.v[si].cost >= 2)
        {
          if (vh_mine ((uint64_t) si))
            vh_stat ("over_budget_settings", 1);
          continue;
        }
      for (int j = 0; j < 2 * VH_NLB; j++)
        if (phrase_selected (L.v[si].cost, j, si) && vh_mine (idx++))
          slab_a (si, j);
      if (vh_mine ((uint64_t) si) && si % 331 == 0)
        vh_sample ("{\"slab\":\"a\",\"setting\":%s,\"phrases\":\"boundary lengths x fills A,P\"}", vh_jstr (L.v[si].s));
    }
  vh_stat ("slab_a_done", 1);
  /* (c) DES family seam */
  int nsalt = vh_thorough ? 4096 : 256;
  for (int s = 0; s < nsalt && !vh_expired (); s++)
    {
      int salt = vh_thorough ? s : (s * 16 + s / 16) & 4095;
      for (unsigned sli = 0; sli < sizeof des_setlens / sizeof *des_setlens; sli++)
        for (unsigned pli = 0; pli < sizeof des_phrlens / sizeof *des_phrlens; pli++, idx++)
          if (vh_mine (idx))
            slab_c (salt, (int) sli, (int) pli);
    }
  vh_stat ("slab_c_done", 1);
  for (int which = 0; which < 10 && !vh_expired (); which++)
    {
      /* quick: from well inside each method's own limit up to the salt length at which an echoed setting alone would no
         longer fit CRYPT_OUTPUT_SIZE (so a result of exactly 384 or more characters is reachable); thorough: 250..400 */
      static const int lo[] = { 335, 325, 300, 275, 250, 250, 300, 300, 300, 320 }, hi[] = { 390, 380, 385, 380, 256, 256, 385, 385, 385, 350 };
      for (int len = vh_thorough ? 250 : lo[which]; len <= (vh_thorough ? 400 : hi[which]); len++)
        for (int term = 0; term < 3; term++)
          if (vh_mine (idx++))
            slab_e (which, len, term);
    }
  vh_stat ("slab_e_done", 1);
  for (int hd = 0; hd < NIHEAD && !vh_expired (); hd++)
    for (int sa = 0; sa < NISALT; sa++)
      for (int term = 0; term < 3; term++)
        if (vh_mine (idx++))
          slab_i (hd, sa, term);
  vh_stat ("slab_i_done", 1);
  {
    /* the widest spellings of a decimal cost field: eight digits (3 s of CPU per hash) in both tiers, nine digits (half a
       minute per hash) in the thorough tier only */
    for (int i = 0; i < (vh_thorough ? 4 : 2); i++)
      if (vh_mine (idx++))
        {
          char rp[32];
          snprintf (rp, sizeof rp, "h:%d", i);
          round_trip ("pw", 2, wide_rounds[i], i % 2 ? M_SHA256 : M_SHA512, 0, rp);
          vh_stat ("wide_round_counts", 1);
        }
  }
  if (mode_c06)
    for (int m = 0; m < M_COUNT && !vh_expired (); m++)
      if (vh_mine ((uint64_t) m))
        shape_diversity (m, d1, d2);
  if (vh_shard == 0)
    vh_stat ("settings_generated", L.n);
  vh_done ();
  return 0;
}
