/* Library writable image: the writable PT_LOAD segments of libxc.so minus PT_GNU_RELRO,
   located with dl_iterate_phdr.  Snapshot / restore / hash of the complete mutable
   static state of the library (Engine B). */
#ifndef VH_IMAGE_H
#define VH_IMAGE_H
#define _GNU_SOURCE
#include <link.h>
#include <stdint.h>
#include <stdlib.h>
#include <string.h>

struct vh_range { unsigned char *p; size_t n; };
static struct vh_range vh_img[8];
static int vh_nimg;
static size_t vh_img_total;

static int
vh_img_cb (struct dl_phdr_info *info, size_t sz, void *arg)
{
  (void) sz;
  (void) arg;
  if (!info->dlpi_name || !strstr (info->dlpi_name, "libxc.so"))
    return 0;
  uintptr_t relro_lo = 0, relro_hi = 0;
  for (int i = 0; i < info->dlpi_phnum; i++)
    if (info->dlpi_phdr[i].p_type == PT_GNU_RELRO)
      {
        relro_lo = info->dlpi_addr + info->dlpi_phdr[i].p_vaddr;
        relro_hi = relro_lo + info->dlpi_phdr[i].p_memsz;
      }
  for (int i = 0; i < info->dlpi_phnum; i++)
    {
      const ElfW (Phdr) * ph = &info->dlpi_phdr[i];
      if (ph->p_type != PT_LOAD || !(ph->p_flags & PF_W))
        continue;
      uintptr_t lo = info->dlpi_addr + ph->p_vaddr, hi = lo + ph->p_memsz;
      if (relro_hi > lo && relro_lo <= lo)
        lo = relro_hi < hi ? relro_hi : hi;
      if (hi > lo && vh_nimg < 8)
        {
          vh_img[vh_nimg].p = (unsigned char *) lo;
          vh_img[vh_nimg].n = hi - lo;
          vh_img_total += hi - lo;
          vh_nimg++;
        }
    }
  return 0;
}

static void
vh_img_find (void)
{
  dl_iterate_phdr (vh_img_cb, 0);
}

static int
vh_in_image (const void *p)
{
  for (int i = 0; i < vh_nimg; i++)
    if ((const unsigned char *) p >= vh_img[i].p && (const unsigned char *) p < vh_img[i].p + vh_img[i].n)
      return 1;
  return 0;
}
#endif
