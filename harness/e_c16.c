/* C16: digest/MAC/KDF primitives equal the standard functions for all lengths and chunkings.
   Oracle: libgcrypt one-shot results. */
#include "crypt-port.h"
#include "alg-md4.h"
#include "alg-md5.h"
#include "alg-sha1.h"
#include "alg-sha256.h"
#include "alg-sha512.h"
#include "alg-hmac-sha1.h"
#include "alg-gost3411-2012-core.h"
#include "alg-gost3411-2012-hmac.h"
#include "vh_rt.h"
#include <gcrypt.h>
#include <stdlib.h>

enum { D_MD4, D_MD5, D_SHA1, D_SHA256, D_SHA512, D_ST256, D_ST512, ND };
static const char *const dname[ND] = { "MD4", "MD5", "SHA-1", "SHA-256", "SHA-512", "Streebog-256", "Streebog-512" };
static const int dalgo[ND] = { GCRY_MD_MD4, GCRY_MD_MD5, GCRY_MD_SHA1, GCRY_MD_SHA256, GCRY_MD_SHA512, GCRY_MD_STRIBOG256, GCRY_MD_STRIBOG512 };
static const int dlen[ND] = { 16, 16, 20, 32, 64, 32, 64 };

#define MAXLEN 1100
static unsigned char msg[4][MAXLEN + 64];

/* the library primitive, fed in the given chunks (sizes[], n chunks) from SRC */
static void
lib_digest (int d, const unsigned char *src, const size_t *sizes, int n, unsigned char *out)
{
  union { MD4_CTX md4; MD5_CTX md5; struct sha1_ctx sha1; SHA256_CTX s256; SHA512_CTX s512; GOST34112012Context g; } c;
  size_t off = 0;
  switch (d)
    {
    case D_MD4:
      MD4_Init (&c.md4);
      for (int i = 0; i < n; off += sizes[i++])
        MD4_Update (&c.md4, src + off, sizes[i]);
      MD4_Final (out, &c.md4);
      break;
    case D_MD5:
      MD5_Init (&c.md5);
      for (int i = 0; i < n; off += sizes[i++])
        MD5_Update (&c.md5, src + off, sizes[i]);
      MD5_Final (out, &c.md5);
      break;
    case D_SHA1:
      sha1_init_ctx (&c.sha1);
      for (int i = 0; i < n; off += sizes[i++])
        sha1_process_bytes (src + off, &c.sha1, sizes[i]);
      sha1_finish_ctx (&c.sha1, out);
      break;
    case D_SHA256:
      SHA256_Init (&c.s256);
      for (int i = 0; i < n; off += sizes[i++])
        SHA256_Update (&c.s256, src + off, sizes[i]);
      SHA256_Final (out, &c.s256);
      break;
    case D_SHA512:
      SHA512_Init (&c.s512);
      for (int i = 0; i < n; off += sizes[i++])
        SHA512_Update (&c.s512, src + off, sizes[i]);
      SHA512_Final (out, &c.s512);
      break;
    case D_ST256:
    case D_ST512:
      GOST34112012Init (&c.g, d == D_ST256 ? 256 : 512);
      for (int i = 0; i < n; off += sizes[i++])
        GOST34112012Update (&c.g, src + off, sizes[i]);
      GOST34112012Final (&c.g, out);
      break;
    }
}

static void
mismatch (const char *what, int d, const char *detail, const char *replay)
{
  char sig[160];
  snprintf (sig, sizeof sig, "%s/%s", what, d >= 0 ? dname[d] : "x");
  vh_viol (sig, "{\"primitive\":\"%s\",%s,\"replay\":\"%s\"}", d >= 0 ? dname[d] : what, detail, replay);
}

/* digest D, message length LEN: one-shot vs libgcrypt (3 fills), all two-way splits, byte-wise, 3-way, alignment */
static void
digest_len (int d, int len)
{
  unsigned char ref[64], out[64];
  char det[200], rp[48];
  size_t sz[1100];
  snprintf (rp, sizeof rp, "d:%d:%d", d, len);
  for (int f = 0; f < 4; f++)
    {
      gcry_md_hash_buffer (dalgo[d], ref, msg[f], (size_t) len);
      sz[0] = (size_t) len;
      lib_digest (d, msg[f], sz, 1, out);
      vh_stat ("evaluations", 1);
      if (memcmp (ref, out, (size_t) dlen[d]))
        {
          snprintf (det, sizeof det, "\"length\":%d,\"fill\":%d,\"chunking\":\"one-shot\",\"expected\":\"%s\",\"got\":\"%s\"", len, f,
                    vh_hex (ref, (size_t) dlen[d]), vh_hex (out, (size_t) dlen[d]));
          mismatch ("digest-differs-from-standard", d, det, rp);
          return;
        }
    }
  if (vh_distinct (vh_hash (ref, (size_t) dlen[d], (uint64_t) d)))
    vh_stat ("distinct_nontrivial", 1);
  gcry_md_hash_buffer (dalgo[d], ref, msg[0], (size_t) len);
  int split_lim = MAXLEN;
  if (len <= split_lim)
    for (int s = 0; s <= len; s++)
      {
        sz[0] = (size_t) s;
        sz[1] = (size_t) (len - s);
        lib_digest (d, msg[0], sz, 2, out);
        vh_stat ("evaluations", 1);
        vh_stat ("two_way_splits", 1);
        if (memcmp (ref, out, (size_t) dlen[d]))
          {
            snprintf (det, sizeof det, "\"length\":%d,\"chunking\":\"%d+%d\"", len, s, len - s);
            mismatch ("chunking-changes-digest", d, det, rp);
            return;
          }
      }
  /* one byte at a time */
  for (int i = 0; i < len; i++)
    sz[i] = 1;
  lib_digest (d, msg[0], sz, len, out);
  vh_stat ("evaluations", 1);
  if (memcmp (ref, out, (size_t) dlen[d]))
    {
      snprintf (det, sizeof det, "\"length\":%d,\"chunking\":\"bytewise\"", len);
      mismatch ("chunking-changes-digest", d, det, rp);
      return;
    }
  int three_lim = vh_thorough ? 200 : 100;
  if (len <= three_lim)
    for (int a = 0; a <= len; a++)
      for (int b = a; b <= len; b++)
        {
          sz[0] = (size_t) a;
          sz[1] = (size_t) (b - a);
          sz[2] = (size_t) (len - b);
          lib_digest (d, msg[0], sz, 3, out);
          vh_stat ("evaluations", 1);
          if (memcmp (ref, out, (size_t) dlen[d]))
            {
              snprintf (det, sizeof det, "\"length\":%d,\"chunking\":\"%d+%d+%d\"", len, a, b - a, len - b);
              mismatch ("chunking-changes-digest", d, det, rp);
              return;
            }
        }
  /* larger multi-way: fixed strides that straddle block boundaries */
  static const int strides[] = { 3, 7, 31, 63, 65, 127, 129 };
  for (unsigned k = 0; k < sizeof strides / sizeof *strides; k++)
    {
      int n = 0, left = len;
      while (left > 0)
        {
          int c = left < strides[k] ? left : strides[k];
          sz[n++] = (size_t) c;
          left -= c;
        }
      lib_digest (d, msg[0], sz, n, out);
      vh_stat ("evaluations", 1);
      if (memcmp (ref, out, (size_t) dlen[d]))
        {
          snprintf (det, sizeof det, "\"length\":%d,\"chunking\":\"stride %d\"", len, strides[k]);
          mismatch ("chunking-changes-digest", d, det, rp);
          return;
        }
    }
  /* source alignment */
  if (len % 8 == 0 || len % 8 == 7 || len < 140)
    for (int al = 1; al < 16; al++)
      {
        static unsigned char shifted[MAXLEN + 64];
        memcpy (shifted + al, msg[0], (size_t) len);
        sz[0] = (size_t) len;
        lib_digest (d, shifted + al, sz, 1, out);
        vh_stat ("evaluations", 1);
        if (memcmp (ref, out, (size_t) dlen[d]))
          {
            snprintf (det, sizeof det, "\"length\":%d,\"source_alignment\":%d", len, al);
            mismatch ("alignment-changes-digest", d, det, rp);
            return;
          }
      }
}

static void
ref_hmac (int algo, const unsigned char *key, size_t kl, const unsigned char *m, size_t ml, unsigned char *out, size_t ol)
{
  gcry_md_hd_t h;
  if (gcry_md_open (&h, algo, GCRY_MD_FLAG_HMAC))
    vh_internal ("gcry_md_open failed");
  if (gcry_md_setkey (h, key, kl))
    vh_internal ("gcry_md_setkey failed");
  gcry_md_write (h, m, ml);
  memcpy (out, gcry_md_read (h, algo), ol);
  gcry_md_close (h);
}

static void
hmac_key (int kl)
{
  unsigned char ref[64], out[64];
  char det[200], rp[48];
  const unsigned char *key = msg[1] + 5, *m = msg[0] + 3;
  snprintf (rp, sizeof rp, "h:%d", kl);
  int mlim = 200;
  for (int ml = 0; ml <= mlim; ml++)
    {
      ref_hmac (GCRY_MD_SHA1, key, (size_t) kl, m, (size_t) ml, ref, 20);
      hmac_sha1_process_data (m, (size_t) ml, key, (size_t) kl, out);
      vh_stat ("evaluations", 1);
      vh_stat ("hmac_cases", 1);
      if (memcmp (ref, out, 20))
        {
          snprintf (det, sizeof det, "\"key_length\":%d,\"message_length\":%d", kl, ml);
          mismatch ("hmac-differs-from-standard/HMAC-SHA1", -1, det, rp);
          return;
        }
      ref_hmac (GCRY_MD_SHA256, key, (size_t) kl, m, (size_t) ml, ref, 32);
      HMAC_SHA256_Buf (key, (size_t) kl, m, (size_t) ml, out);
      vh_stat ("evaluations", 1);
      if (memcmp (ref, out, 32))
        {
          snprintf (det, sizeof det, "\"key_length\":%d,\"message_length\":%d", kl, ml);
          mismatch ("hmac-differs-from-standard/HMAC-SHA256", -1, det, rp);
          return;
        }
      if (kl % 8 == 0 || kl == 63 || kl == 65 || vh_thorough)
        for (int s = 0; s <= ml; s += (vh_thorough ? 1 : 3))
          {
            HMAC_SHA256_CTX c;
            HMAC_SHA256_Init (&c, key, (size_t) kl);
            HMAC_SHA256_Update (&c, m, (size_t) s);
            HMAC_SHA256_Update (&c, m + s, (size_t) (ml - s));
            HMAC_SHA256_Final (out, &c);
            vh_stat ("evaluations", 1);
            if (memcmp (ref, out, 32))
              {
                snprintf (det, sizeof det, "\"key_length\":%d,\"message_length\":%d,\"chunking\":\"%d+%d\"", kl, ml, s, ml - s);
                mismatch ("hmac-chunking/HMAC-SHA256", -1, det, rp);
                return;
              }
          }
    }
  if (kl >= 32 && kl <= 64)
    for (int ml = 0; ml <= 300; ml++)
      for (int f = 0; f < 2; f++)
        {
          gost_hmac_256_t gb;
          const unsigned char *k2 = f ? msg[2] : key, *m2 = f ? msg[2] + 1 : m;
          ref_hmac (GCRY_MD_STRIBOG256, k2, (size_t) kl, m2, (size_t) ml, ref, 32);
          gost_hmac256 (k2, (size_t) kl, m2, (size_t) ml, out, &gb);
          vh_stat ("evaluations", 1);
          if (memcmp (ref, out, 32))
            {
              snprintf (det, sizeof det, "\"key_length\":%d,\"message_length\":%d,\"fill\":%d", kl, ml, f);
              mismatch ("hmac-differs-from-standard/HMAC-Streebog-256", -1, det, rp);
              return;
            }
        }
}

static const int bset[] = { 0, 1, 2, 31, 32, 33, 55, 56, 63, 64, 65, 119, 127, 128, 129, 130 };
#define NB ((int) (sizeof bset / sizeof *bset))

static const int sset[] = { 0, 1, 8, 16, 32, 51, 52, 53, 55, 56, 63, 64, 65, 115, 116, 117, 128, 180, 200 };
#define NSS ((int) (sizeof sset / sizeof *sset))

static void
pbkdf2_pw (int pi)
{
  unsigned char ref[128], out[128];
  char det[200], rp[48];
  int pl = pi < NB ? bset[pi] : 0;
  snprintf (rp, sizeof rp, "p:%d", pi);
  /* pi < NB: password length bset[pi] x every salt length 0..200; pi >= NB: salt length (pi - NB) mod-64 classes x every
     password length 0..200 (the key pre-hash and the salt block padding are separate fast paths) */
  for (int si = 0; si <= 200; si++)
    for (int it = 1; it <= 50; it++)
      {
        if (!vh_thorough && !(it <= 3 || it == 10 || it == 50))
          continue;
        if (pi >= NB && it > 2)
          continue;
        static const int dk[] = { 1, 20, 31, 32, 33, 63, 64, 65, 96, 100 };
        for (unsigned di = 0; di < sizeof dk / sizeof *dk; di++)
          {
            int sl = si;
            if (pi >= NB)
              {
                pl = si;
                sl = sset[pi - NB];
                if (!(dk[di] == 32 || dk[di] == 33 || dk[di] == 64))
                  continue;
              }
            /* libgcrypt refuses an empty passphrase in FIPS-agnostic mode for some versions: use its answer only when it gives one */
            gcry_error_t e = gcry_kdf_derive (msg[0] + 9, (size_t) pl, GCRY_KDF_PBKDF2, GCRY_MD_SHA256, msg[1] + 2, (size_t) sl, (unsigned long) it,
                                              (size_t) dk[di], ref);
            if (e)
              {
                vh_stat ("reference_unavailable", 1);
                continue;
              }
            PBKDF2_SHA256 (msg[0] + 9, (size_t) pl, msg[1] + 2, (size_t) sl, (uint64_t) it, out, (size_t) dk[di]);
            vh_stat ("evaluations", 1);
            vh_stat ("pbkdf2_cases", 1);
            if (memcmp (ref, out, (size_t) dk[di]))
              {
                snprintf (det, sizeof det, "\"password_length\":%d,\"salt_length\":%d,\"iterations\":%d,\"dkLen\":%d", pl, sl, it, dk[di]);
                mismatch ("pbkdf2-differs-from-standard/PBKDF2-HMAC-SHA256", -1, det, rp);
                return;
              }
          }
      }
}

int
main (int argc, char **argv)
{
  vh_init (argc, argv);
  if (!gcry_check_version (0))
    vh_internal ("libgcrypt init failed");
  gcry_control (GCRYCTL_DISABLE_SECMEM, 0);
  gcry_control (GCRYCTL_INITIALIZATION_FINISHED, 0);
  for (size_t i = 0; i < sizeof msg[0]; i++)
    {
      msg[0][i] = (unsigned char) (i * 131 + 17);
      msg[1][i] = 0xff;
      msg[2][i] = (unsigned char) ((i / 8) % 3 == 1 ? 0xff : (0x80 + i));        /* aligned runs of eight 0xff */
      msg[3][i] = (unsigned char) (i % 64 < 56 ? 0xff : 0xfe + (i & 1));
    }
  if (vh_replay && *vh_replay)
    {
      int a, b;
      if (sscanf (vh_replay, "d:%d:%d", &a, &b) == 2)
        digest_len (a, b);
      else if (sscanf (vh_replay, "h:%d", &a) == 1)
        hmac_key (a);
      else if (sscanf (vh_replay, "p:%d", &a) == 1)
        pbkdf2_pw (a);
      else
        vh_internal ("bad replay token");
      vh_done ();
      return 0;
    }
  uint64_t idx = 0;
  for (int len = 0; len <= MAXLEN && !vh_expired (); len++)
    for (int d = 0; d < ND; d++)
      if (vh_mine (idx++))
        {
          digest_len (d, len);
          if (len == 119 || len == 1000)
            vh_sample ("{\"primitive\":\"%s\",\"length\":%d,\"chunkings\":\"one-shot x4 fills, all two-way splits, bytewise, strides, alignments 1..15\"}", dname[d], len);
        }
  for (int kl = 0; kl <= 200 && !vh_expired (); kl++)
    if (vh_mine (idx++))
      hmac_key (kl);
  for (int pi = 0; pi < NB + NSS; pi++)
    if (vh_mine (idx++))
      pbkdf2_pw (pi);
  vh_done ();
  return 0;
}
