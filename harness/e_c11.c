/* C11: crypt_gensalt encodes the documented cost for every count.
   16 prefixes x ~330 count values x 4 entropy fills; independent decoders. */
#include "vh_rt.h"
#include "vh_methods.h"
#include <crypt.h>
#include <limits.h>
#include <stdlib.h>

static unsigned long counts[6000];
static int ncounts;

static void
addc (unsigned long c)
{
  for (int i = 0; i < ncounts; i++)
    if (counts[i] == c)
      return;
  counts[ncounts++] = c;
}

static void
mkcounts (void)
{
  for (unsigned long c = 0; c <= 40; c++)
    addc (c);
  for (int k = 1; k < 64; k++)
    {
      unsigned long p = 1UL << k;
      addc (p - 1);
      addc (p);
      addc (p + 1);
    }
  unsigned long t = 10;
  for (int k = 1; k <= 19; k++, t *= 10)
    {
      addc (t - 1);
      addc (t);
      addc (t + 1);
    }
  static const unsigned long sp[] = { 724, 725, 726, 999, 1000, 1001, 4999, 5000, 5001, 32767, 32768, 32769, 65535, 65536, 262143,
    262144, 262145, 16777213, 16777214, 16777215, 16777216, 16777217, 999999998, 999999999, 1000000000, 1000000001,
    4294901758UL, 4294901759UL, 4294901760UL, 4294901761UL, 4294967294UL, 4294967295UL, 4294967296UL, 4294967297UL,
    ULONG_MAX - 1, ULONG_MAX
  };
  for (unsigned i = 0; i < sizeof sp / sizeof *sp; i++)
    addc (sp[i]);
  /* every in-range and just-out-of-range small value again above each width a narrower integer type would truncate to:
     2^8, 2^16, 2^31, 2^32, 2^33, 2^48 and 2^63 plus 0..40 */
  {
    static const int widths[] = { 8, 16, 31, 32, 33, 48, 63 };
    for (unsigned w = 0; w < sizeof widths / sizeof *widths; w++)
      for (unsigned long c = 0; c <= 40; c++)
        addc ((1UL << widths[w]) + c);
  }
  if (vh_thorough)
    {
      /* every count up to 1100 and around the sha-crypt default, and 2000 counter-derived 64-bit values */
      for (unsigned long c = 41; c <= 1100 && ncounts < 5990; c++)
        counts[ncounts++] = c;
      for (unsigned long c = 4900; c <= 5100 && ncounts < 5990; c++)
        counts[ncounts++] = c;
      for (int t = 0; t < 2000 && ncounts < 5990; t++)
        counts[ncounts++] = vh_hash (&t, sizeof t, 11) >> (t % 48);
    }
}

static int
a64 (char c)
{
  const char *p = c ? strchr (A64, c) : 0;
  return p ? (int) (p - A64) : -1;
}

/* expectation: 0 = must fail with EINVAL, 1 = must succeed */
struct expect { int ok; unsigned long long lo, hi; /* cost window */ int has_field; /* sha: rounds= present */
  unsigned N_log2, r, p; };

static const char *const prefixes[M_COUNT] = { "$y$", "$gy$", "$7$", "$2b$", "$2y$", "$2a$", "$2x$", "$6$", "$5$", "$sha1", "$md5",
  "$1$", "$3$", "_", "", "Az" };

static unsigned long long
clampu (unsigned long long v, unsigned long long lo, unsigned long long hi)
{
  return v < lo ? lo : v > hi ? hi : v;
}

/* the documented function of count (crypt.5, crypt_gensalt.3, property text) */
static void
expected (int m, unsigned long count, const unsigned char *rb, struct expect *e)
{
  memset (e, 0, sizeof *e);
  switch (m)
    {
    case M_YESCRYPT:
    case M_GOST:
      {
        unsigned long c = count ? count : 5;
        e->ok = c >= 1 && c <= 11;
        if (c < 3)
          {
            e->r = 8;
            e->N_log2 = (unsigned) c + 9;
          }
        else
          {
            e->r = 32;
            e->N_log2 = (unsigned) c + 7;
          }
        e->p = 1;
        break;
      }
    case M_SCRYPT:
      {
        unsigned long c = count ? count : 7;
        e->ok = c >= 6 && c <= 11;
        e->r = 32;
        e->N_log2 = (unsigned) c + 7;
        e->p = 1;
        break;
      }
    case M_BCRYPT_A:
    case M_BCRYPT_B:
    case M_BCRYPT_Y:
      {
        unsigned long c = count ? count : 5;
        e->ok = c >= 4 && c <= 31;
        e->lo = e->hi = c;
        break;
      }
    case M_BCRYPT_X:
      e->ok = 0;
      break;
    case M_SHA256:
    case M_SHA512:
      {
        unsigned long long c = count ? count : 5000;
        c = clampu (c, 1000, 999999999);
        e->ok = 1;
        e->lo = e->hi = c;
        e->has_field = c != 5000;
        break;
      }
    case M_SHA1:
      {
        unsigned long long c = count ? count : 262144;
        c = clampu (c, 4, 4294967295ULL);
        e->ok = 1;
        e->hi = c;
        e->lo = c - c / 4 + 1;  /* (c - c/4, c] */
        break;
      }
    case M_SUNMD5:
      {
        /* randomised window: clamped count plus 16 bits taken from the random bytes, never beyond the documented
           maximum of crypt.5 (4,294,963,199 = 2^32 - 1 - 4096: crypt adds 4096 basic rounds in 32-bit arithmetic, so
           a larger field would wrap to a cost below the method's minimum) */
        unsigned long long c = clampu (count, 32768, 4294967295ULL - 65536);
        e->ok = 1;
        e->lo = c;
        e->hi = c + ((unsigned) rb[0] << 8) + rb[1];
        if (e->hi > 4294963199ULL)
          e->hi = 4294963199ULL;
        if (e->lo > e->hi)
          e->lo = e->hi;
        if (e->hi == c + ((unsigned) rb[0] << 8) + rb[1])
          e->lo = e->hi;        /* below the cap the value is exact */
        break;
      }
    case M_BSDI:
      {
        unsigned long long c = count ? count : 725;
        if (c > 16777215)
          c = 16777215;
        c |= 1;
        e->ok = 1;
        e->lo = e->hi = c;
        break;
      }
    case M_MD5:
    case M_NT:
    case M_BIG:
    case M_DES:
      e->ok = count == 0;
      break;
    }
}

/* independent decoders of the cost field; returns 0 on layout error */
static int
decode_cost (int m, const char *s, unsigned long long *cost, int *has_field, unsigned *Nl, unsigned *r, unsigned *p)
{
  char *end;
  *has_field = 0;
  switch (m)
    {
    case M_YESCRYPT:
    case M_GOST:
      {
        const char *q = s + (m == M_GOST ? 4 : 3);
        if (strncmp (s, m == M_GOST ? "$gy$" : "$y$", m == M_GOST ? 4 : 3))
          return 0;
        /* flavor 'j' (YESCRYPT_DEFAULTS), N_log2 = 1 + idx, r = 1 + idx, then '$' (p = 1 implied) */
        if (q[0] != 'j' || a64 (q[1]) < 0 || a64 (q[2]) < 0 || q[3] != '$')
          return 0;
        if (a64 (q[1]) > 47 || a64 (q[2]) > 47)
          return 0;               /* single-character range of the variable-length code */
        *Nl = 1 + (unsigned) a64 (q[1]);
        *r = 1 + (unsigned) a64 (q[2]);
        *p = 1;
        return 1;
      }
    case M_SCRYPT:
      {
        if (strncmp (s, "$7$", 3) || strlen (s) < 14)
          return 0;
        *Nl = (unsigned) a64 (s[3]);
        unsigned long rv = 0, pv = 0;
        for (int i = 0; i < 5; i++)
          {
            if (a64 (s[4 + i]) < 0 || a64 (s[9 + i]) < 0)
              return 0;
            rv |= (unsigned long) a64 (s[4 + i]) << (6 * i);
            pv |= (unsigned long) a64 (s[9 + i]) << (6 * i);
          }
        *r = (unsigned) rv;
        *p = (unsigned) pv;
        return 1;
      }
    case M_BCRYPT_A:
    case M_BCRYPT_B:
    case M_BCRYPT_Y:
    case M_BCRYPT_X:
      if (s[0] != '$' || s[1] != '2' || s[3] != '$' || s[4] < '0' || s[4] > '9' || s[5] < '0' || s[5] > '9' || s[6] != '$')
        return 0;
      *cost = (unsigned long long) ((s[4] - '0') * 10 + (s[5] - '0'));
      return 1;
    case M_SHA256:
    case M_SHA512:
      if (strncmp (s + 3, "rounds=", 7))
        {
          *cost = 5000;
          return 1;
        }
      *has_field = 1;
      if (s[10] < '1' || s[10] > '9')
        return 0;
      *cost = strtoull (s + 10, &end, 10);
      return *end == '$';
    case M_SHA1:
      if (strncmp (s, "$sha1$", 6) || s[6] < '1' || s[6] > '9')
        return 0;
      *cost = strtoull (s + 6, &end, 10);
      return *end == '$';
    case M_SUNMD5:
      if (strncmp (s, "$md5,rounds=", 12) || s[12] < '1' || s[12] > '9')
        return 0;
      *cost = strtoull (s + 12, &end, 10);
      return *end == '$';
    case M_BSDI:
      {
        if (s[0] != '_' || strlen (s) != 9)
          return 0;
        unsigned long long v = 0;
        for (int i = 0; i < 4; i++)
          {
            if (a64 (s[1 + i]) < 0)
              return 0;
            v |= (unsigned long long) a64 (s[1 + i]) << (6 * i);
          }
        *cost = v;
        return 1;
      }
    default:
      *cost = 0;
      return 1;
    }
}

static char cj[800];

static void
one (int m, int ci, int fill)
{
  unsigned char rb[64];
  char out[CRYPT_GENSALT_OUTPUT_SIZE], sig[160];
  for (int i = 0; i < 64; i++)
    rb[i] = fill == 0 ? 0 : fill == 1 ? vh_fillP ((size_t) i) : fill == 2 ? 0xff : (unsigned char) (0x5b + 29 * i);
  unsigned long count = counts[ci];
  struct expect e;
  expected (m, count, rb, &e);
  snprintf (cj, sizeof cj, "{\"method\":\"%s\",\"prefix\":%s,\"count\":%lu,\"fill\":%d,\"replay\":\"%d:%d:%d\"",
            vh_methods[m].name, vh_jstr (prefixes[m]), count, fill, m, ci, fill);
  char *r = 0;
  int k = VH_TRY (0);
  if (k == 0)
    {
      /* an arbitrary errno on entry (undocumented codes: a refusal must replace it) */
      errno = ((m + ci + fill) & 1) ? EPERM : ((m + ci + fill) & 2) ? ERANGE : 0;
      /* immediately after a successful request for the same method (whatever that left on the stack or in the library) */
      static char prevout[CRYPT_GENSALT_OUTPUT_SIZE];
      (void) crypt_gensalt_rn (prefixes[m], 0, (const char *) rb + 1, 48, prevout, sizeof prevout);
      errno = ((m + ci + fill) & 1) ? EPERM : ((m + ci + fill) & 2) ? ERANGE : 0;
      r = crypt_gensalt_rn (prefixes[m], count, (const char *) rb, 64, out, sizeof out);
      VH_END ();
    }
  int err = errno;
  vh_stat ("evaluations", 1);
  if (k)
    {
      snprintf (sig, sizeof sig, "fatal/%s/method=%s", vh_fatal_name (k), vh_methods[m].name);
      vh_viol (sig, "%s,\"outcome\":\"%s\"}", cj, vh_js (vh_fatal_msg, strlen (vh_fatal_msg)));
      return;
    }
  if (!e.ok)
    {
      vh_stat ("expected_rejections", 1);
      if (r || err != EINVAL)
        {
          snprintf (sig, sizeof sig, "out-of-range-count-accepted/method=%s/count=%lu", vh_methods[m].name, count);
          vh_viol (sig, "%s,\"result\":%s,\"errno\":%d}", cj, vh_jstr (r), err);
        }
      return;
    }
  if (!r)
    {
      snprintf (sig, sizeof sig, "valid-count-refused/method=%s/count=%lu", vh_methods[m].name, count);
      vh_viol (sig, "%s,\"errno\":%d}", cj, err);
      return;
    }
  unsigned long long cost = 0;
  int has_field = 0;
  unsigned Nl = 0, rr = 0, pp = 0;
  if (!decode_cost (m, r, &cost, &has_field, &Nl, &rr, &pp))
    {
      snprintf (sig, sizeof sig, "undecodable-cost/method=%s", vh_methods[m].name);
      vh_viol (sig, "%s,\"result\":%s}", cj, vh_jstr (r));
      return;
    }
  int bad = 0;
  if (m == M_YESCRYPT || m == M_GOST || m == M_SCRYPT)
    bad = Nl != e.N_log2 || rr != e.r || pp != e.p;
  else if (m == M_MD5 || m == M_NT || m == M_BIG || m == M_DES)
    bad = 0;
  else
    bad = cost < e.lo || cost > e.hi;
  if ((m == M_SHA256 || m == M_SHA512) && has_field != e.has_field)
    bad = 1;
  if (bad)
    {
      snprintf (sig, sizeof sig, "wrong-cost/method=%s/count=%lu", vh_methods[m].name, count);
      vh_viol (sig, "%s,\"result\":%s,\"decoded\":%llu,\"N_log2\":%u,\"r\":%u,\"p\":%u,\"expected_lo\":%llu,\"expected_hi\":%llu,"
               "\"expected_N_log2\":%u,\"expected_r\":%u}", cj, vh_jstr (r), cost, Nl, rr, pp, e.lo, e.hi, e.N_log2, e.r);
      return;
    }
  /* 0 means the default: identical to passing the default explicitly */
  if (count == 0)
    {
      static const unsigned long defs[M_COUNT] = {[M_YESCRYPT] = 5,[M_GOST] = 5,[M_SCRYPT] = 7,[M_BCRYPT_A] = 5,[M_BCRYPT_B] = 5,
        [M_BCRYPT_Y] = 5,[M_SHA256] = 5000,[M_SHA512] = 5000,[M_SHA1] = 262144,[M_BSDI] = 725
      };
      if (defs[m])
        {
          char out2[CRYPT_GENSALT_OUTPUT_SIZE];
          char *r2 = crypt_gensalt_rn (prefixes[m], defs[m], (const char *) rb, 64, out2, sizeof out2);
          vh_stat ("evaluations", 1);
          if (!r2 || strcmp (r, r2))
            {
              snprintf (sig, sizeof sig, "default-differs/method=%s", vh_methods[m].name);
              vh_viol (sig, "%s,\"count0\":%s,\"explicit_default\":%s}", cj, vh_jstr (r), vh_jstr (r2));
            }
        }
    }
  vh_stat ("accepted", 1);
  if (vh_distinct (vh_hash_str (r, (uint64_t) m)))
    vh_stat ("distinct_nontrivial", 1);
  if ((ci * 7 + m) % 97 == 0)
    vh_sample ("%s,\"setting\":%s,\"decoded_cost\":%llu,\"N_log2\":%u,\"r\":%u}", cj, vh_jstr (r), cost, Nl, rr);
}

int
main (int argc, char **argv)
{
  vh_init (argc, argv);
  mkcounts ();
  if (vh_replay && *vh_replay)
    {
      int m, ci, f;
      if (sscanf (vh_replay, "%d:%d:%d", &m, &ci, &f) != 3)
        vh_internal ("bad replay token");
      one (m, ci, f);
      vh_done ();
      return 0;
    }
  uint64_t idx = 0;
  for (int m = 0; m < M_COUNT; m++)
    for (int ci = 0; ci < ncounts; ci++)
      for (int f = 0; f < 4; f++, idx++)
        if (vh_mine (idx))
          one (m, ci, f);
  vh_stat ("count_values", vh_shard == 0 ? ncounts : 0);
  vh_done ();
  return 0;
}
