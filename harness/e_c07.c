/* C07: hashing is a pure function of its inputs across entry points and call history.
   Engine B: explicit-state breadth-first search over API call histories on the real
   library.  State = every byte the next call could observe: the library's complete
   writable image (crypt()'s static object, crypt_gensalt()'s buffer, the setkey/encrypt
   key schedule, any future hidden static), the caller objects A (aligned, zero start),
   B (offset +5, 0xA5 start), C (crypt_ra handle) and errno.  States are snapshots restored
   by memcpy; the first states of every shard are also re-materialised by replaying their
   history from the pristine image and must hash identically.  Oracle: every call's
   observable result equals the same call's solo result from the pristine state. */
#define _GNU_SOURCE
#include "vh_rt.h"
#include "vh_methods.h"
#include "vh_image.h"
#include <crypt.h>
#include <dlfcn.h>
#include <stdlib.h>
#include <stdarg.h>

/* ---- state ------------------------------------------------------------------ */
#define OBJSZ sizeof (struct crypt_data)
static unsigned char *arenaA, *arenaB;
static struct crypt_data *A, *B;
static void *C;
static int Csize;
/* crypt_ra handle D starts as an undersized caller block (100 bytes, recorded 100): its pointer class, recorded size and
   contents are state too; the block itself is re-created on restore because realloc moves it */
static void *Dblk;
static int Dreal, Dsize;
static size_t state_bytes;

struct snap { unsigned char *bytes; int err; };

static void
capture (unsigned char *dst)
{
  size_t o = 0;
  for (int i = 0; i < vh_nimg; i++)
    {
      memcpy (dst + o, vh_img[i].p, vh_img[i].n);
      o += vh_img[i].n;
    }
  memcpy (dst + o, A, OBJSZ);
  o += OBJSZ;
  memcpy (dst + o, B, OBJSZ);
  o += OBJSZ;
  memcpy (dst + o, C, OBJSZ);
  o += OBJSZ;
  memset (dst + o, 0, 8 + OBJSZ);
  memcpy (dst + o, &Dreal, 4);
  memcpy (dst + o + 4, &Dsize, 4);
  if (Dblk)
    memcpy (dst + o + 8, Dblk, (size_t) Dreal < OBJSZ ? (size_t) Dreal : OBJSZ);
}

static void
restore (const unsigned char *src, int err)
{
  size_t o = 0;
  for (int i = 0; i < vh_nimg; i++)
    {
      memcpy (vh_img[i].p, src + o, vh_img[i].n);
      o += vh_img[i].n;
    }
  memcpy (A, src + o, OBJSZ);
  o += OBJSZ;
  memcpy (B, src + o, OBJSZ);
  o += OBJSZ;
  memcpy (C, src + o, OBJSZ);
  Csize = OBJSZ;
  o += OBJSZ;
  /* D's block always comes from the armed allocator seam: it ends at a guard page (an overflow through a lying recorded size
     faults inside the call) and realloc/free can follow it through the ledger */
  vh_seam_armed = 1;
  if (Dblk)
    free (Dblk);
  vh_seam_armed = 0;
  vh_ledger_reset ();
  memcpy (&Dreal, src + o, 4);
  memcpy (&Dsize, src + o + 4, 4);
  vh_seam_armed = 1;
  Dblk = Dreal ? malloc ((size_t) Dreal) : 0;
  vh_seam_armed = 0;
  if (Dblk)
    memcpy (Dblk, src + o + 8, (size_t) Dreal < OBJSZ ? (size_t) Dreal : OBJSZ);
  errno = err;
}

/* ---- operations --------------------------------------------------------------- */
enum { K_R, K_RN, K_RA, K_STATIC, K_GENSALT, K_GENSALT_CRYPT, K_GENSALT_RN, K_SETKEY, K_ENCRYPT, K_CHECKSALT, K_XCRYPT, K_RA_D, K_RA_D_ALLOCFAIL, K_RA_D_BADREQ };
struct op { int kind, obj, phrase, setting; char name[96]; char solo[CRYPT_OUTPUT_SIZE]; int solo_null; int solo_errclass; int request; int core; };
static struct op ops[400];
static int nops;

static const char *phrases[4] = { "pw", "another-phrase-of-27-bytes!", 0 /* 600 bytes */ , 0 /* 200 bytes */  };
static char longphrase[601], phrase200[201];
static const char *settings[48];
static int nsettings, nvalid;

static void (*p_setkey) (const char *);
static void (*p_encrypt) (char *, int);
static char *(*p_xcrypt) (const char *, const char *);
static char *(*p_fcrypt) (const char *, const char *);

static int last_errno;         /* errno as the library call left it: part of the state */

static int
errclass (int e)
{
  return e == EINVAL ? 1 : e == ERANGE ? 2 : e == ENOMEM ? 3 : e == 0 ? 0 : 9;
}

/* executes the operation; RES receives the observable result string ("" when none), *isnull, *ec (errno class, only meaningful for failures) */
static void
exec_op (const struct op *o, char *res, int *isnull, int *ec)
{
  static const unsigned char rb[64] = "0123456789abcdefghijklmnopqrstuvwxyzABCDEFGHIJKLMNOPQRSTUVWXYZ./";
  static const char key1[64] = { 1, 0, 1, 1, 0, 0, 1, 0, 0, 1, 1, 1, 0, 1, 0, 0, 1, 1, 0, 1, 0, 1, 1, 0, 0, 0, 1, 1, 1, 0, 1, 0,
    0, 1, 0, 0, 1, 1, 0, 1, 1, 0, 1, 0, 0, 1, 1, 1, 0, 0, 0, 1, 0, 1, 1, 0, 1, 1, 0, 0, 1, 0, 1, 1 };
  static const char key2[64] = { 0, 1, 1, 0, 1, 0, 0, 1, 1, 1, 0, 0, 0, 1, 1, 0, 1, 0, 1, 0, 1, 1, 0, 0, 0, 1, 0, 1, 1, 0, 0, 1,
    1, 0, 1, 1, 0, 0, 0, 1, 0, 1, 1, 0, 1, 0, 0, 1, 1, 1, 0, 1, 0, 0, 1, 0, 0, 1, 1, 0, 1, 0, 1, 1 };
  struct crypt_data *d = o->obj == 0 ? A : B;
  const char *P = o->phrase == 2 ? longphrase : o->phrase == 3 ? phrase200 : phrases[o->phrase];
  const char *S = o->setting >= 0 ? settings[o->setting] : 0;
  char *r = 0;
  char out[CRYPT_GENSALT_OUTPUT_SIZE];
  char blk[64];
  res[0] = 0;
  *isnull = 0;
  switch (o->kind)
    {
    case K_R: r = crypt_r (P, S, d); break;
    case K_RN: r = crypt_rn (P, S, d, OBJSZ); break;
    case K_RA: r = crypt_ra (P, S, &C, &Csize); break;
    case K_STATIC: r = crypt (P, S); break;
    case K_XCRYPT: r = o->obj ? p_fcrypt (P, S) : p_xcrypt (P, S); break;
    case K_RA_D:
    case K_RA_D_BADREQ:
    case K_RA_D_ALLOCFAIL:
      {
        /* the handle's block is tracked through the allocator seam so that realloc's result can be followed */
        vh_req_count = 0;
        vh_fail_at[0] = o->kind == K_RA_D_ALLOCFAIL ? 1 : 0;
        vh_seam_armed = 1;
        r = crypt_ra (P, S, &Dblk, &Dsize);
        last_errno = errno;
        vh_seam_armed = 0;
        vh_fail_at[0] = 0;
        struct vh_blk *b = Dblk ? vh_ledger_find (Dblk) : 0;
        Dreal = b ? (int) b->n : 0;
        errno = last_errno;
        break;
      }
    case K_GENSALT: r = crypt_gensalt (S, 0, (const char *) rb, 16 + 16 * o->obj); break;
    case K_GENSALT_RN: r = crypt_gensalt_rn (S, 0, (const char *) rb, 16 + 16 * o->obj, out, sizeof out); break;
    case K_GENSALT_CRYPT:
      {
        char *g = crypt_gensalt (S, 0, (const char *) rb, 16);
        r = g ? crypt (P, g) : 0;       /* the static result handed straight to crypt */
        break;
      }
    case K_SETKEY:
      p_setkey (o->obj ? key2 : key1);
      last_errno = errno;
      return;
    case K_ENCRYPT:
      for (int i = 0; i < 64; i++)
        blk[i] = (char) ((i * 7 + 3) % 5 < 2);
      p_encrypt (blk, o->obj);
      last_errno = errno;
      for (int i = 0; i < 64; i++)
        res[i] = (char) ('0' + blk[i]);
      res[64] = 0;
      return;
    case K_CHECKSALT:
      {
        int cs = crypt_checksalt (S);
        last_errno = errno;
        snprintf (res, 16, "%d", cs);
        return;
      }
    }
  last_errno = errno;
  *ec = errclass (last_errno);
  if (!r)
    *isnull = 1;
  else
    snprintf (res, CRYPT_OUTPUT_SIZE, "%s", r);
}

static void
addop (int kind, int obj, int phrase, int setting, int request, const char *fmt, ...)
{
  struct op *o = &ops[nops++];
  memset (o, 0, sizeof *o);
  o->kind = kind;
  o->obj = obj;
  o->phrase = phrase;
  o->setting = setting;
  o->request = request;
  va_list ap;
  va_start (ap, fmt);
  vsnprintf (o->name, sizeof o->name, fmt, ap);
  va_end (ap);
  /* the sub-alphabet explored one level deeper: the four cheapest method representatives with phrase 0 on every object and
     entry point, the failing requests, the generators, setkey/encrypt */
  int cheap_setting = setting >= 0 && setting < 4;
  o->core = ((kind <= K_STATIC) && phrase == 0 && (cheap_setting || setting >= nvalid)) || (kind <= K_STATIC && phrase >= 2)
    || (kind == K_GENSALT && obj == 0 && (request == 1000 || request == 1003)) || kind == K_GENSALT_CRYPT || kind == K_SETKEY || kind == K_ENCRYPT || kind == K_RA_D || kind == K_RA_D_ALLOCFAIL;
  if (kind == K_R && setting < nvalid && setting != 3)
    o->core = 0;                /* crypt_r is kept in the sub-alphabet for one method and the failures only */
}

static void
mkops (void)
{
  /* method representatives: quick 7, thorough all 16 (simplest first) */
  static const int quickm[] = { M_NT, M_DES, M_MD5, M_SHA256, M_BSDI, M_YESCRYPT, M_BCRYPT_B, M_SHA1 };
  int nm = vh_thorough ? M_COUNT : (int) (sizeof quickm / sizeof *quickm);
  for (int i = 0; i < nm; i++)
    {
      int m = vh_thorough ? i : quickm[i];
      settings[nsettings++] = (m == M_YESCRYPT || m == M_GOST || m == M_SCRYPT) ? vh_cheap[m][1] : vh_cheap[m][0];
    }
  nvalid = nsettings;
  settings[nsettings++] = "$1$sa:lt";                 /* forbidden byte */
  settings[nsettings++] = "$9$unknown$";              /* unknown prefix */
  settings[nsettings++] = "$5$rounds=999$salt";       /* malformed parameter */
  settings[nsettings++] = "_J9..MJ=n";                /* refused inside the method, after it has looked at several characters */
  int nfail0 = nvalid;
  int req = 0;
  for (int s = 0; s < nsettings; s++)
    for (int p = 0; p < (s < nvalid ? 2 : 1); p++, req++)
      {
        addop (K_RN, 0, p, s, req, "crypt_rn(A,P%d,%s)", p, settings[s]);
        addop (K_R, 0, p, s, req, "crypt_r(A,P%d,%s)", p, settings[s]);
        addop (K_RN, 1, p, s, req, "crypt_rn(B,P%d,%s)", p, settings[s]);
        addop (K_RA, 0, p, s, req, "crypt_ra(C,P%d,%s)", p, settings[s]);
        addop (K_STATIC, 0, p, s, req, "crypt(P%d,%s)", p, settings[s]);
      }
  /* too-long phrase: ERANGE from the generic check */
  addop (K_RN, 0, 2, 2, req, "crypt_rn(A,600 bytes,%s)", settings[2]);
  addop (K_R, 1, 2, 2, req, "crypt_r(B,600 bytes,%s)", settings[2]);
  addop (K_STATIC, 0, 2, 2, req++, "crypt(600 bytes,%s)", settings[2]);
  (void) nfail0;
  /* results that fill most of the output field, and a 200-byte phrase on the segment-limited method: residue of a longer
     earlier result, or of the object's initial garbage, must not show */
  {
    static char longsalt[330];
    snprintf (longsalt, sizeof longsalt, "$7$2/..../....");
    for (int i = 14; i < 300; i++)
      longsalt[i] = A64[(i * 7 + 3) % 64];
    longsalt[300] = 0;
    int sl = nsettings, sb = nsettings + 1;
    settings[nsettings++] = longsalt;
    settings[nsettings++] = "ab............";
    addop (K_RN, 0, 0, sl, req, "crypt_rn(A,P0,$7$ with a 286-character salt)");
    addop (K_RN, 1, 0, sl, req, "crypt_rn(B,P0,$7$ with a 286-character salt)");
    addop (K_STATIC, 0, 0, sl, req++, "crypt(P0,$7$ with a 286-character salt)");
    addop (K_RN, 0, 3, sb, req, "crypt_rn(A,200 bytes,ab............)");
    addop (K_RN, 1, 3, sb, req, "crypt_rn(B,200 bytes,ab............)");
    addop (K_RA, 0, 3, sb, req, "crypt_ra(C,200 bytes,ab............)");
    addop (K_STATIC, 0, 3, sb, req++, "crypt(200 bytes,ab............)");
  }
  /* a crypt_ra handle that starts undersized, with and without the allocator failing: a failed call must not change what the next one returns */
  /* (a method that makes no allocator or mapping request of its own: the fault operation is about crypt_ra's reallocation) */
  int smd5 = vh_thorough ? M_MD5 : 2;
  addop (K_RA_D, 0, 0, smd5, 2 * smd5, "crypt_ra(D,P0,%s)", settings[smd5]);
  addop (K_RA_D_ALLOCFAIL, 0, 0, smd5, 9000, "crypt_ra(D,P0,%s) while the allocator fails", settings[smd5]);
  /* failing requests through the handle that crypt_ra has to allocate or replace first (same request numbers as the other entry points) */
  for (int s = nvalid; s < nvalid + 4; s++)
    addop (K_RA_D_BADREQ, 0, 0, s, 2 * nvalid + (s - nvalid), "crypt_ra(D,P0,%s)", settings[s]);
  /* compat names */
  addop (K_XCRYPT, 0, 0, 2, 2 * 2, "xcrypt(P0,%s)", settings[2]);
  addop (K_XCRYPT, 1, 0, 1, 1 * 2, "fcrypt(P0,%s)", settings[1]);
  /* generators and their static buffer */
  static const char *const gp[] = { "$1$", "$6$", "$y$", "", "$9$" };
  for (int g = 0; g < 5; g++)
    {
      settings[nsettings] = gp[g];
      addop (K_GENSALT, 0, 0, nsettings, 1000 + g, "crypt_gensalt(%s,16 bytes)", gp[g]);
      addop (K_GENSALT, 1, 0, nsettings, 2000 + g, "crypt_gensalt(%s,32 bytes)", gp[g]);
      addop (K_GENSALT_RN, 0, 0, nsettings, 1000 + g, "crypt_gensalt_rn(%s,16 bytes)", gp[g]);
      if (g == 0 || g == 3)
        addop (K_GENSALT_CRYPT, 0, 0, nsettings, 3000 + g, "crypt(P0,crypt_gensalt(%s))", gp[g]);
      nsettings++;
    }
  addop (K_SETKEY, 0, 0, -1, 4000, "setkey(K1)");
  addop (K_SETKEY, 1, 0, -1, 4001, "setkey(K2)");
  addop (K_ENCRYPT, 0, 0, -1, 4002, "encrypt(block,0)");
  addop (K_ENCRYPT, 1, 0, -1, 4003, "encrypt(block,1)");
  addop (K_CHECKSALT, 0, 0, 0, 4004, "crypt_checksalt(%s)", settings[0]);
  addop (K_CHECKSALT, 0, 0, nvalid, 4005, "crypt_checksalt(%s)", settings[nvalid]);
}

/* ---- search --------------------------------------------------------------------- */
struct node { uint64_t h; int parent; short op; short depth; unsigned char *snap; size_t snaplen; int err; int dsize_before; };
/* snapshots are stored as runs that differ from the pristine state: (offset u32, length u32, bytes)* */
static unsigned char *pristine;
static size_t
encode_diff (const unsigned char *cur, unsigned char **out)
{
  size_t cap = 4096, n = 0;
  unsigned char *o = malloc (cap);
  size_t i = 0;
  while (i < state_bytes)
    {
      if (cur[i] == pristine[i])
        {
          i++;
          continue;
        }
      size_t j = i, same = 0;
      while (j < state_bytes && same < 24)
        {
          same = cur[j] == pristine[j] ? same + 1 : 0;
          j++;
        }
      size_t len = j - i - (same >= 24 ? same : 0);
      if (n + 8 + len > cap)
        {
          while (n + 8 + len > cap)
            cap *= 2;
          o = realloc (o, cap);
        }
      uint32_t off32 = (uint32_t) i, len32 = (uint32_t) len;
      memcpy (o + n, &off32, 4);
      memcpy (o + n + 4, &len32, 4);
      memcpy (o + n + 8, cur + i, len);
      n += 8 + len;
      i += len;
    }
  *out = o;
  return n;
}
static unsigned char *work;      /* state_bytes scratch for decoding */
static void restore (const unsigned char *src, int err);
static void
restore_node (const struct node *nd)
{
  memcpy (work, pristine, state_bytes);
  for (size_t k = 0; k < nd->snaplen;)
    {
      uint32_t off32, len32;
      memcpy (&off32, nd->snap + k, 4);
      memcpy (&len32, nd->snap + k + 4, 4);
      memcpy (work + off32, nd->snap + k + 8, len32);
      k += 8 + len32;
    }
  restore (work, nd->err);
}
#define HT_BITS 21
static int *ht;
static struct node *nodes;
static int nnodes, capnodes;
static unsigned char *scratch;
static int pristine_err;
static uint64_t keyK1;           /* hash of the key register after setkey(K1) from pristine: encrypt's solo depends on the key history */

/* canonical form: the runs that differ from the pristine state (address-independent: relocated pointers in the image
   never change and so never enter the hash), plus errno */
static uint64_t
hash_state (const unsigned char *s, int err)
{
  unsigned char *enc;
  size_t n = encode_diff (s, &enc);
  uint64_t h = vh_hash (enc, n, (uint64_t) err + 1);
  free (enc);
  return h;
}

static int
find_node (uint64_t h)
{
  size_t m = ((size_t) 1 << HT_BITS) - 1, j = (size_t) h & m;
  while (ht[j] >= 0)
    {
      if (nodes[ht[j]].h == h)
        return ht[j];
      j = (j + 1) & m;
    }
  return -1;
}

static char cj[1400];

static void
trace_of (int n, int lastop, char *buf, size_t bl)
{
  int path[16], pl = 0;
  for (int x = n; x >= 0 && nodes[x].parent >= -1 && nodes[x].op >= 0; x = nodes[x].parent)
    path[pl++] = nodes[x].op;
  buf[0] = 0;
  for (int i = pl - 1; i >= 0; i--)
    snprintf (buf + strlen (buf), bl - strlen (buf), "%d.", path[i]);
  if (lastop >= 0)
    snprintf (buf + strlen (buf), bl - strlen (buf), "%d", lastop);
}

static void
names_of (const char *trace, char *buf, size_t bl)
{
  char t[200];
  snprintf (t, sizeof t, "%s", trace);
  buf[0] = 0;
  for (char *q = strtok (t, "."); q; q = strtok (0, "."))
    snprintf (buf + strlen (buf), bl - strlen (buf), "%s%s", buf[0] ? " ; " : "", ops[atoi (q)].name);
}

/* the key register model for encrypt: last setkey in the history (0 none, 1 K1, 2 K2) */
static int
key_in_history (int n, int lastop)
{
  if (lastop >= 0 && ops[lastop].kind == K_SETKEY)
    return 1 + ops[lastop].obj;
  for (int x = n; x >= 0 && nodes[x].op >= 0; x = nodes[x].parent)
    if (ops[nodes[x].op].kind == K_SETKEY)
      return 1 + ops[nodes[x].op].obj;
  return 0;
}

static char enc_expect[3][2][80];        /* [key 0/K1/K2][edflag] */

/* run op OI from node N (already restored); returns 1 on violation */
static int
check_op (int n, int oi)
{
  char res[CRYPT_OUTPUT_SIZE + 80], sig[220], trace[200], names[900];
  int isnull = 0, ec = 0;
  const struct op *o = &ops[oi];
  int k = VH_TRY (0);
  if (k == 0)
    {
      exec_op (o, res, &isnull, &ec);
      VH_END ();
    }
  if (k)
    {
      /* the call was abandoned half-way: put the seams back */
      vh_seam_armed = 0;
      vh_fail_at[0] = 0;
    }
  vh_stat ("evaluations", 1);
  vh_stat ("transitions", 1);
  const char *why = 0;
  char expect[CRYPT_OUTPUT_SIZE + 80];
  snprintf (expect, sizeof expect, "%s", o->solo);
  if (k)
    why = "crash";
  else if (o->kind == K_ENCRYPT)
    {
      int key = key_in_history (n, -1);
      snprintf (expect, sizeof expect, "%s", enc_expect[key][o->obj]);
      if (strcmp (res, expect))
        why = "encrypt result does not follow the last setkey (static key disturbed by another call)";
    }
  else if (o->kind == K_SETKEY)
    why = 0;
  else if (o->kind == K_RA_D_ALLOCFAIL)
    {
      /* undersized before the call (the restored node's recorded size) => NULL with ENOMEM; otherwise no allocation happens */
      int undersized = nodes[n].dsize_before < (int) OBJSZ;
      if (undersized)
        {
          snprintf (expect, sizeof expect, "(NULL, ENOMEM)");
          if (!isnull || ec != 3)
            why = "crypt_ra did not report the failed allocation";
        }
      else
        {
          const char *want = 0;
          for (int i = 0; i < nops; i++)
            if (ops[i].kind == K_RA_D)
              want = ops[i].solo;
          snprintf (expect, sizeof expect, "%s", want ? want : "");
          if (isnull || strcmp (res, expect))
            why = "result differs from the same call made alone";
        }
    }
  else if (isnull != o->solo_null || strcmp (res, o->solo))
    why = "result differs from the same call made alone";
  else if (isnull && ec != o->solo_errclass)
    why = "errno differs from the same call made alone";
  if (why)
    {
      trace_of (n, oi, trace, sizeof trace);
      names_of (trace, names, sizeof names);
      snprintf (sig, sizeof sig, "%s/call=%.60s", why, o->name);
      vh_viol (sig, "{\"history\":\"%s\",\"calls\":\"%s\",\"result\":%s,\"alone\":%s,\"errno_class\":%d,\"alone_errno_class\":%d,\"replay\":\"%s\"}", trace,
               vh_js (names, strlen (names)), isnull ? "null" : vh_jstr (res), o->solo_null ? "null" : vh_jstr (expect), ec, o->solo_errclass, trace);
      return 1;
    }
  return 0;
}

static int
add_node (uint64_t h, int parent, int op, int depth, const unsigned char *bytes, int err)
{
  if (nnodes == capnodes)
    {
      capnodes = capnodes ? capnodes * 2 : 4096;
      nodes = realloc (nodes, (size_t) capnodes * sizeof *nodes);
    }
  struct node *nd = &nodes[nnodes];
  nd->h = h;
  nd->parent = parent;
  nd->op = (short) op;
  nd->depth = (short) depth;
  nd->err = err;
  memcpy (&nd->dsize_before, bytes + state_bytes - OBJSZ - 4, 4);
  nd->snaplen = encode_diff (bytes, &nd->snap);
  printf ("H states %016llx\n", (unsigned long long) h);
  size_t m = ((size_t) 1 << HT_BITS) - 1, j = (size_t) h & m;
  while (ht[j] >= 0)
    j = (j + 1) & m;
  ht[j] = nnodes;
  return nnodes++;
}

static void
solo_results (void)
{
  for (int i = 0; i < nops; i++)
    {
      char res[CRYPT_OUTPUT_SIZE + 80];
      int isnull = 0, ec = 0;
      restore (pristine, pristine_err);
      exec_op (&ops[i], res, &isnull, &ec);
      snprintf (ops[i].solo, sizeof ops[i].solo, "%s", res);
      ops[i].solo_null = isnull;
      ops[i].solo_errclass = ec;
    }
  /* entry points agree on the same request */
  for (int i = 0; i < nops; i++)
    for (int j = i + 1; j < nops; j++)
      if (ops[i].request == ops[j].request && (ops[i].kind <= K_STATIC || ops[i].kind == K_XCRYPT || ops[i].kind == K_RA_D || ops[i].kind == K_RA_D_BADREQ)
          && (ops[j].kind <= K_STATIC || ops[j].kind == K_XCRYPT || ops[j].kind == K_RA_D || ops[j].kind == K_RA_D_BADREQ))
        {
          int fi = ops[i].solo_null || ops[i].solo[0] == '*', fj = ops[j].solo_null || ops[j].solo[0] == '*';
          if (fi != fj || (!fi && strcmp (ops[i].solo, ops[j].solo)))
            vh_viol ("entry-points-disagree", "{\"a\":\"%s\",\"b\":\"%s\",\"result_a\":%s,\"result_b\":%s,\"replay\":\"%d\"}", vh_js (ops[i].name, strlen (ops[i].name)),
                     vh_js (ops[j].name, strlen (ops[j].name)), vh_jstr (ops[i].solo), vh_jstr (ops[j].solo), i);
        }
  /* encrypt expectations per key register value */
  for (int key = 0; key < 3; key++)
    for (int ed = 0; ed < 2; ed++)
      {
        char res[CRYPT_OUTPUT_SIZE + 80];
        int isnull, ec;
        restore (pristine, pristine_err);
        for (int i = 0; i < nops; i++)
          if (ops[i].kind == K_SETKEY && key == 1 + ops[i].obj)
            exec_op (&ops[i], res, &isnull, &ec);
        for (int i = 0; i < nops; i++)
          if (ops[i].kind == K_ENCRYPT && ops[i].obj == ed)
            {
              exec_op (&ops[i], res, &isnull, &ec);
              snprintf (enc_expect[key][ed], sizeof enc_expect[key][ed], "%s", res);
            }
      }
  (void) keyK1;
}

/* first use of an object with arbitrary contents (only 'initialized' cleared, as crypt(3) allows): every method x 16
   alignments x 4 fills x crypt_rn / crypt_r / crypt_ra on a caller's block, against the answer on a zeroed aligned object */
static void
first_use (int m, int align, int fill4)
{
  /* both canonical settings of the method: with and without the terminating '$' / hash part */
  int which = fill4 >> 2, fill = fill4 & 3;
  static unsigned char *arena;
  static struct crypt_data *Z;
  if (!arena)
    {
      arena = aligned_alloc (64, OBJSZ + 64);
      Z = aligned_alloc (64, OBJSZ);
    }
  /* third variant: the smallest cost each method's setting syntax can spell (loops that run zero or one time) */
  static const char *const mincost[M_COUNT] = {[M_YESCRYPT] = "$y$j/.$saltSALT",[M_GOST] = "$gy$j/.$saltSALT",[M_SCRYPT] = "$7$0/..../....saltSALT",
    [M_BCRYPT_B] = "$2b$04$abcdefghijklmnopqrstuu",[M_BCRYPT_Y] = "$2y$04$abcdefghijklmnopqrstuu",[M_BCRYPT_A] = "$2a$04$abcdefghijklmnopqrstuu",
    [M_BCRYPT_X] = "$2x$04$abcdefghijklmnopqrstuu",[M_SHA512] = "$6$rounds=1000$s",[M_SHA256] = "$5$rounds=1000$s",[M_SHA1] = "$sha1$0$saltSALT",
    [M_SUNMD5] = "$md5,rounds=1$s",[M_MD5] = "$1$",[M_NT] = "$3$",[M_BSDI] = "_/...salt",[M_BIG] = "..............",[M_DES] = ".."
  };
  const char *S = which < 2 ? vh_cheap[m][which] : mincost[m];
  const char *P = "first use of this object";
  char want[CRYPT_OUTPUT_SIZE], sig[200];
  memset (Z, 0, OBJSZ);
  char *r = crypt_rn (P, S, Z, OBJSZ);
  if (!r)
    vh_internal ("first-use reference failed for %s", S);
  strcpy (want, r);
  for (int ep = 0; ep < 3; ep++)
    {
      struct crypt_data *d = (struct crypt_data *) (arena + align);
      for (size_t i = 0; i < OBJSZ; i++)
        ((unsigned char *) d)[i] = fill == 0 ? 0xA5 : fill == 1 ? 0xFF : fill == 2 ? 0x01 : (unsigned char) (i * 131 + 7);
      d->initialized = 0;
      void *blk = 0;
      int bsz = OBJSZ;
      if (ep == 2)
        {
          blk = malloc (OBJSZ);
          memcpy (blk, d, OBJSZ);
        }
      errno = 0;
      r = ep == 0 ? crypt_rn (P, S, d, OBJSZ) : ep == 1 ? crypt_r (P, S, d) : crypt_ra (P, S, &blk, &bsz);
      vh_stat ("evaluations", 1);
      vh_stat ("first_use_calls", 1);
      if (!r || strcmp (r, want))
        {
          snprintf (sig, sizeof sig, "first use of a non-zero object gives a different answer/method=%s", vh_methods[m].name);
          vh_viol (sig, "{\"method\":\"%s\",\"entry\":\"%s\",\"alignment\":%d,\"fill\":%d,\"setting\":%s,\"result\":%s,\"on_zeroed_object\":%s,\"replay\":\"F%d:%d:%d\"}",
                   vh_methods[m].name, ep == 0 ? "crypt_rn" : ep == 1 ? "crypt_r" : "crypt_ra", align, fill, vh_jstr (S), vh_jstr (r), vh_jstr (want), m, align, fill4);
          free (blk);
          return;
        }
      free (blk);
    }
}

int
main (int argc, char **argv)
{
  vh_init (argc, argv);
  vh_mmap_cap = (size_t) 64 << 20;
  vh_img_find ();
  if (!vh_nimg)
    vh_internal ("library image not found");
  Dl_info li;
  if (!dladdr ((void *) crypt_rn, &li) || !strstr (li.dli_fname, "libxc.so"))
    vh_internal ("crypt_rn does not resolve to the library under test");
  void *lh = dlopen (li.dli_fname, RTLD_NOW | RTLD_NOLOAD);
  if (!lh)
    vh_internal ("cannot reopen %s", li.dli_fname);
  p_setkey = (void (*)(const char *)) dlvsym (lh, "setkey", "GLIBC_2.2.5");
  p_encrypt = (void (*)(char *, int)) dlvsym (lh, "encrypt", "GLIBC_2.2.5");
  p_xcrypt = (char *(*)(const char *, const char *)) dlvsym (lh, "xcrypt", "XCRYPT_2.0");
  p_fcrypt = (char *(*)(const char *, const char *)) dlvsym (lh, "fcrypt", "GLIBC_2.2.5");
  if (!p_setkey || !p_encrypt || !p_xcrypt || !p_fcrypt)
    vh_internal ("compat symbols not found in the library build");
  Dl_info di;
  if (!dladdr ((void *) p_setkey, &di) || !strstr (di.dli_fname, "libxc.so"))
    vh_internal ("setkey does not resolve to the library under test");
  memset (longphrase, 'x', 600);
  memset (phrase200, 'y', 200);
  arenaA = aligned_alloc (64, OBJSZ + 64);
  arenaB = aligned_alloc (64, OBJSZ + 64);
  A = (struct crypt_data *) arenaA;
  B = (struct crypt_data *) (arenaB + 5);
  C = malloc (OBJSZ);
  Csize = OBJSZ;
  memset (A, 0, OBJSZ);
  memset (B, 0xA5, OBJSZ);
  memset (C, 0, OBJSZ);
  vh_seam_armed = 1;
  Dblk = malloc (100);
  vh_seam_armed = 0;
  memset (Dblk, 0x6B, 100);
  Dreal = 100;
  Dsize = 100;
  state_bytes = vh_img_total + 3 * OBJSZ + 8 + OBJSZ;
  pristine = malloc (state_bytes);
  scratch = malloc (state_bytes);
  work = malloc (state_bytes);
  ht = malloc (sizeof (int) << HT_BITS);
  for (size_t i = 0; i < ((size_t) 1 << HT_BITS); i++)
    ht[i] = -1;
  errno = 0;
  pristine_err = 0;
  capture (pristine);
  mkops ();
  solo_results ();

  if (vh_replay && vh_replay[0] == 'F')
    {
      int m, al, fi;
      if (sscanf (vh_replay, "F%d:%d:%d", &m, &al, &fi) != 3)
        vh_internal ("bad replay token");
      first_use (m, al, fi);
      vh_done ();
      return 0;
    }
  {
    uint64_t fidx = 0;
    for (int m = 0; m < M_COUNT; m++)
      for (int al = 0; al < 16; al++)
        for (int fi = 0; fi < 12; fi++)
          if (vh_mine (fidx++) && !(vh_replay && *vh_replay))
            first_use (m, al, fi);
    restore (pristine, pristine_err);
  }
  if (vh_replay && *vh_replay)
    {
      /* replay a history given as op indexes separated by '.' : every step checked */
      char t[200];
      snprintf (t, sizeof t, "%s", vh_replay);
      restore (pristine, pristine_err);
      nnodes = 0;
      add_node (hash_state (pristine, 0), -1, -1, 0, pristine, 0);
      int cur = 0;
      for (char *q = strtok (t, "."); q; q = strtok (0, "."))
        {
          int oi = atoi (q);
          if (oi < 0 || oi >= nops)
            vh_internal ("bad op index in replay");
          restore_node (&nodes[cur]);
          if (check_op (cur, oi))
            break;
          int e = last_errno;
          capture (scratch);
          cur = add_node (hash_state (scratch, e), cur, oi, nodes[cur].depth + 1, scratch, e);
        }
      vh_stat ("states", nnodes);
      vh_done ();
      return 0;
    }

  int closed = 1;
  for (int pass = 0; pass < 2; pass++)
    {
      /* pass 0: the complete alphabet to depth 2; pass 1: the sub-alphabet to depth 3 (quick) / 4 (thorough) */
      int cap = pass == 0 ? (vh_thorough ? 3 : 2) : 4;
      long max_states = 1500000;
      for (int i = 0; i < nnodes; i++)
        free (nodes[i].snap);
      nnodes = 0;
      for (size_t i = 0; i < ((size_t) 1 << HT_BITS); i++)
        ht[i] = -1;
      add_node (hash_state (pristine, 0), -1, -1, 0, pristine, 0);
      uint64_t deal = 0;
      for (int cur = 0; cur < nnodes && !vh_expired (); cur++)
        {
          if (nodes[cur].depth >= cap)
            {
              closed = 0;
              continue;
            }
          for (int oi = 0; oi < nops; oi++)
            {
              if (pass == 1 && !ops[oi].core)
                continue;
              if (nodes[cur].depth == 1 && !vh_mine (deal++))
                continue;       /* second-level transitions are dealt to the shards (every shard expands the root) */
              restore_node (&nodes[cur]);
              if (check_op (cur, oi))
                continue;
              int e = last_errno;
              capture (scratch);
              uint64_t h = hash_state (scratch, e);
              if (find_node (h) < 0)
                {
                  if (nnodes >= max_states)
                    {
                      closed = 0;
                      vh_stat ("state_cap_hits", 1);
                      continue;
                    }
                  int nn = add_node (h, cur, oi, nodes[cur].depth + 1, scratch, e);
                  vh_statmax ("max_depth", nodes[cur].depth + 1);
                  if (nn % 4001 == 7 || (nodes[nn].depth == 4 && nn % 9973 == 11))
                    {
                      char tr[200], nm[900];
                      trace_of (nn, -1, tr, sizeof tr);
                      names_of (tr, nm, sizeof nm);
                      vh_sample ("{\"history\":\"%s\",\"depth\":%d,\"pass\":\"%s\",\"errno_after\":%d}", vh_js (nm, strlen (nm)), nodes[nn].depth,
                                 pass == 0 ? "complete alphabet" : "sub-alphabet", e);
                    }
                }
            }
        }
      vh_stat (pass == 0 ? "states_full_alphabet" : "states_sub_alphabet", nnodes);
      if (vh_expired ())
        closed = 0;
    }
  /* determinism gate: re-materialise the first states by replaying their histories from the pristine image */
  int gate = vh_nviol ? 0 : nnodes < 64 ? nnodes : 64;       /* after a violation (possibly an abandoned call) the gate says nothing */
  for (int n = 1; n < gate; n++)
    {
      int path[16], pl = 0;
      for (int x = n; nodes[x].op >= 0; x = nodes[x].parent)
        path[pl++] = nodes[x].op;
      restore (pristine, pristine_err);
      int e = 0;
      for (int i = pl - 1; i >= 0; i--)
        {
          char res[CRYPT_OUTPUT_SIZE + 80];
          int isnull, ec;
          exec_op (&ops[path[i]], res, &isnull, &ec);
          e = last_errno;
          errno = e;
        }
      capture (scratch);
      if (hash_state (scratch, e) != nodes[n].h)
        vh_internal ("state %d is not reproduced by replaying its history (nondeterminism)", n);
      vh_stat ("replayed_states", 1);
    }
  vh_stat ("states", nnodes);
  vh_stat (closed ? "shards_closed" : "shards_capped", 1);
  if (vh_shard == 0)
    {
      vh_stat ("operations", nops);
      int nc = 0;
      for (int i = 0; i < nops; i++)
        nc += ops[i].core;
      vh_stat ("operations_sub_alphabet", nc);
      vh_stat ("state_bytes", (long long) state_bytes);
      vh_sample ("{\"alphabet\":%d,\"state_bytes\":%zu,\"library_image_bytes\":%zu,\"example_ops\":[\"%s\",\"%s\",\"%s\",\"%s\"]}", nops, state_bytes, vh_img_total,
                 ops[0].name, ops[7].name, ops[nops - 4].name, ops[nops - 9].name);
    }
  vh_done ();
  return 0;
}
