/* C02: hashes equal the published algorithms (cross-implementation, cross-release).
   Oracles: (i) the released libxcrypt 4.4.33 shipped in the image (dlopen, RTLD_LOCAL),
   (ii) spec-level reference models (ref/ref_crypt.h, ref/ref_des.h) over libgcrypt. */
#include "vh_rt.h"
#include "vh_methods.h"
#include "vh_grammar.h"
#include <crypt.h>
#include <dlfcn.h>
#include <stdlib.h>
#include <stdarg.h>
#include "ref_crypt.h"
#include "ref_des.h"

typedef char *(*crypt_rn_fn) (const char *, const char *, void *, int);
static crypt_rn_fn rel_crypt_rn;
static struct crypt_data *d1, *d2;

struct setdef { int m; int primary; char s[400]; };
static struct setdef *sets;
static int nsets, capsets;

static void
addset (int m, int primary, const char *fmt, ...)
{
  if (nsets == capsets)
    {
      capsets = capsets ? capsets * 2 : 512;
      sets = realloc (sets, (size_t) capsets * sizeof *sets);
    }
  va_list ap;
  va_start (ap, fmt);
  vsnprintf (sets[nsets].s, sizeof sets[nsets].s, fmt, ap);
  va_end (ap);
  sets[nsets].m = m;
  sets[nsets].primary = primary;
  nsets++;
}

static void
saltstr (char *dst, int n, const char *alpha, int phase)
{
  int al = (int) strlen (alpha);
  for (int i = 0; i < n; i++)
    dst[i] = alpha[(i * 7 + 3 + phase * 11) % al];
  dst[n] = 0;
}

static void
mksets (void)
{
  char s[400];
  /* md5crypt: every salt length */
  for (int l = 0; l <= 9; l++)
    {
      saltstr (s, l, A64, l);
      addset (M_MD5, l == 8, "$1$%s", s);
    }
  addset (M_MD5, 0, "$1$saltSALT$ignoredhashportion...");
  /* sha256/512crypt */
  for (int w = 0; w < 2; w++)
    {
      int m = w ? M_SHA256 : M_SHA512;
      const char *t = w ? "$5$" : "$6$";
      for (int l = 0; l <= 17; l++)
        {
          saltstr (s, l, A64, l);
          addset (m, l == 16, "%srounds=1000$%s", t, s);
        }
      static const char *const rs[] = { "", "rounds=5000$", "rounds=1001$", "rounds=4999$", "rounds=5001$", "rounds=9999$", "rounds=10000$" };
      static const int sl[] = { 0, 8, 16 };
      for (unsigned r = 0; r < sizeof rs / sizeof *rs; r++)
        for (unsigned k = 0; k < 3; k++)
          {
            saltstr (s, sl[k], A64, sl[k] + 1);
            addset (m, r == 0 && k == 2, "%s%s%s", t, rs[r], s);
          }
    }
  /* sha1crypt */
  for (int it = 0; it <= 32; it++)
    addset (M_SHA1, it == 24, "$sha1$%d$saltSALT", it);
  addset (M_SHA1, 0, "$sha1$100$saltSALT");
  addset (M_SHA1, 0, "$sha1$1000$saltSALT$");
  static const int s1l[] = { 1, 2, 8, 16, 63, 64 };
  for (unsigned k = 0; k < sizeof s1l / sizeof *s1l; k++)
    {
      saltstr (s, s1l[k], A64, s1l[k]);
      addset (M_SHA1, 0, "$sha1$24$%s$", s);
    }
  /* sunmd5 */
  static const char *const sr[] = { "$md5$", "$md5,rounds=1$", "$md5,rounds=9$", "$md5,rounds=10$", "$md5,rounds=99$", "$md5,rounds=100$", "$md5,rounds=4294967295$", "$md5$rounds=5$" };
  for (unsigned r = 0; r < sizeof sr / sizeof *sr; r++)
    {
      addset (M_SUNMD5, r == 0, "%ssaltSALT", sr[r]);
      addset (M_SUNMD5, 0, "%ssaltSALT$", sr[r]);
    }
  addset (M_NT, 1, "$3$");
  addset (M_NT, 0, "$3$$ignored");
  /* bsdicrypt: counts x salts, and every single-character salt change of one base */
  static const char *const bc[] = { "/...", "0...", "1...", "N...", "J9..", "zz..", "/..2" /* bit 20 of the count: 2^20 + 1 iterations */ };
  static const char *const bs[] = { "....", "salt", "zzzz", "Az09" };
  for (unsigned c = 0; c < 7; c++)
    for (unsigned k = 0; k < (c == 6 ? 1 : 4); k++)
      addset (M_BSDI, c == 4 && k == 1, "_%s%s", bc[c], bs[k]);
  for (int pos = 0; pos < 4; pos++)
    for (int v = 0; v < 64; v += 9)
      {
        char b[8] = "salt";
        b[pos] = A64[v];
        addset (M_BSDI, 0, "_1...%s", b);
      }
  /* descrypt / bigcrypt */
  static const char *const ds[] = { "ab", "..", "zz", "Az", "/9", "a.", ".z", "Z1", "9/", "mM", "q0", "0q", "xX", "Xx", "B.", "/b" };
  for (unsigned k = 0; k < 16; k++)
    {
      addset (M_DES, k == 0, "%s", ds[k]);
      addset (M_BIG, k == 0, "%s............", ds[k]);
    }
  /* bcrypt: 4 subtypes x cost 4..6 x salts */
  static const char sub[] = "byax";
  static const int bm[] = { M_BCRYPT_B, M_BCRYPT_Y, M_BCRYPT_A, M_BCRYPT_X };
  static const char *const bsalt[] = { "abcdefghijklmnopqrstuu", "......................", "ZYXWVUTSRQPONMLKJIHGFe" };
  for (int t = 0; t < 4; t++)
    for (int c = 4; c <= 6; c++)
      for (int k = 0; k < 3; k++)
        addset (bm[t], c == 4 && k == 0, "$2%c$%02d$%s", sub[t], c, bsalt[k]);
  /* yescrypt / gost-yescrypt */
  static const char *const yp[] = { "j/.", "j75", "j85", "j73", "j75..", "j75./", "j75/.", "j75//", "j750./", ".4/", ".75", ".6/", "/4/", "/75", "j95", "j0.", "j1/" };
  static const int ysl[] = { 0, 1, 4, 8, 16, 22, 43, 86 };
  /* lane count p and time t fields: have=1 -> p; have=2 -> t; have=3 -> p,t (p coded from 2, t from 1) for N = 2^7..2^10, r=1..8 */
  for (int w = 0; w < 2; w++)
    for (int nl = 7; nl <= 10; nl++)
      for (int pp = 2; pp <= 10; pp++)
        for (int t = 0; t <= 2; t++)
          {
            if (pp == 7 || pp == 9)
              continue;
            char prm[16];
            if (t == 0)
              snprintf (prm, sizeof prm, "j%c3.%c", A64[nl - 1], A64[pp - 2]);
            else
              snprintf (prm, sizeof prm, "j%c30%c%c", A64[nl - 1], A64[pp - 2], A64[t - 1]);
            addset (w ? M_GOST : M_YESCRYPT, 0, "%s%s$saltSALT", w ? "$gy$" : "$y$", prm);
          }
  for (int w = 0; w < 2; w++)
    for (unsigned p = 0; p < sizeof yp / sizeof *yp; p++)
      for (unsigned k = 0; k < 8; k++)
        {
          if (p > 1 && !(k == 3 || k == 4 || (p == 9 && k < 6)))
            continue;
          saltstr (s, ysl[k], A64, ysl[k]);
          if (ysl[k] % 4 == 1)
            continue;           /* a lone sextet cannot encode a byte */
          if (ysl[k] % 4 == 2)
            s[ysl[k] - 1] = A64[(strchr (A64, s[ysl[k] - 1]) - A64) & 3];
          if (ysl[k] % 4 == 3)
            s[ysl[k] - 1] = A64[(strchr (A64, s[ysl[k] - 1]) - A64) & 15];
          addset (w ? M_GOST : M_YESCRYPT, p == 0 && k == 4, "%s%s$%s", w ? "$gy$" : "$y$", yp[p], s);
        }
  /* scrypt: N 2^2..2^10, r {1,2,8}, p {1,2,3} */
  static const int ssl[] = { 1, 8, 16, 50 };
  for (int nl = 2; nl <= 10; nl++)
    for (int r = 0; r < 3; r++)
      for (int p = 1; p <= 3; p++)
        {
          static const int rv[] = { 1, 2, 8 };
          if (nl > 6 && !(r == 0 || p == 1))
            continue;
          char rf[8], pf[8];
          for (int i = 0; i < 5; i++)
            {
              rf[i] = A64[(rv[r] >> (6 * i)) & 63];
              pf[i] = A64[(p >> (6 * i)) & 63];
            }
          rf[5] = pf[5] = 0;
          for (int k = 0; k < 4; k++)
            {
              if (k != 1 && !(nl == 4 && r == 0 && p == 1))
                continue;
              saltstr (s, ssl[k], A64, ssl[k]);
              addset (M_SCRYPT, nl == 4 && r == 0 && p == 1 && k == 1, "$7$%c%s%s%s", A64[nl], rf, pf, s);
            }
        }
  /* yescrypt cost fields through every size class of their variable-length encoding (1 character up to 48, 2 characters beyond) */
  {
    static const unsigned vs[] = { 2, 3, 47, 48, 49, 50, 51, 52, 63, 64, 65, 111, 112, 113, 114, 115, 130,
      /* three-character encodings start at 561 (r, t) / 562 (p) */
      559, 560, 561, 562, 563, 600, 1000, 2000 };
    char ys[120];
    for (int w = 0; w < 2; w++)
      for (unsigned i = 0; i < sizeof vs / sizeof *vs; i++)
        {
          vh_ysetting (ys, sizeof ys, w ? "$gy$" : "$y$", 2, vs[i], 1, 0, "saltSALT");
          addset (w ? M_GOST : M_YESCRYPT, 0, "%s", ys);
          vh_ysetting (ys, sizeof ys, w ? "$gy$" : "$y$", vs[i] > 250 ? 13 : 10, 1, vs[i], 0, "saltSALT");
          if (vs[i] <= 1000)
            addset (w ? M_GOST : M_YESCRYPT, 0, "%s", ys);
          vh_ysetting (ys, sizeof ys, w ? "$gy$" : "$y$", 7, 1, 1, vs[i], "saltSALT");
          addset (w ? M_GOST : M_YESCRYPT, 0, "%s", ys);
        }
  }
  /* yescrypt's pre-hash threshold (N/p >= 0x100 and floor(N/p)*r >= 0x20000) with a p that does not divide N: r just below, at
     and just above p*2^17/N (48 MiB each) */
  {
    char ys[120];
    for (int w = 0; w < 2; w++)
      for (unsigned r = 95; r <= 97; r++)
        {
          vh_ysetting (ys, sizeof ys, w ? "$gy$" : "$y$", 12, r, 3, 0, "saltSALT");
          addset (w ? M_GOST : M_YESCRYPT, 0, "%s", ys);
        }
    vh_ysetting (ys, sizeof ys, "$y$", 13, 48, 3, 0, "saltSALT");
    addset (M_YESCRYPT, 0, "%s", ys);
    vh_ysetting (ys, sizeof ys, "$y$", 12, 32, 1, 1, "saltSALT");      /* and a t field at a size that pre-hashes */
    addset (M_YESCRYPT, 0, "%s", ys);
    vh_ysetting (ys, sizeof ys, "$y$", 12, 32, 1, 2, "saltSALT");
    addset (M_YESCRYPT, 0, "%s", ys);
  }
  /* salt-length sweeps at the cheapest cost: every length of the range each method accepts (and just beyond) */
  for (int l = 1; l <= 325; l += (l < 130 ? 1 : 5))      /* 328 and more: refused since fixed defect F1, hashed (with an overflow) by 4.4.33 */
    {
      saltstr (s, l, A64, l + 5);
      addset (M_SHA1, 0, "$sha1$20$%s$", s);
    }
  for (int l = 0; l <= 40; l += (l < 20 ? 1 : 5))
    {
      saltstr (s, l, A64, l + 9);
      addset (M_SUNMD5, 0, "$md5$%s$", s);
    }
  for (int l = 0; l <= 300; l += (l < 130 ? 1 : 5))
    {
      saltstr (s, l, A64, l + 2);
      addset (M_SCRYPT, 0, "$7$2/..../....%s", s);
    }
  for (int w = 0; w < 2; w++)
    for (int l = 0; l <= 86; l++)
      {
        if (l % 4 == 1)
          continue;
        saltstr (s, l, A64, l + 4);
        if (l % 4 == 2)
          s[l - 1] = A64[(strchr (A64, s[l - 1]) - A64) & 3];
        if (l % 4 == 3)
          s[l - 1] = A64[(strchr (A64, s[l - 1]) - A64) & 15];
        addset (w ? M_GOST : M_YESCRYPT, 0, "%sj/.$%s", w ? "$gy$" : "$y$", s);
      }
}

/* phrases */
static size_t
mkphrase (char *dst, int li, int fill)
{
  size_t n = (size_t) vh_Lb[li];
  vh_fill (dst, n, "APHM"[fill]);
  return n;
}

static int
model (int m, const char *pw, size_t pl, const char *setting, char *out)
{
  switch (m)
    {
    case M_MD5: return ref_md5crypt (pw, pl, setting, out);
    case M_SHA256: return ref_shacrypt (256, pw, pl, setting, out);
    case M_SHA512: return ref_shacrypt (512, pw, pl, setting, out);
    case M_SHA1: return ref_sha1crypt (pw, pl, setting, out);
    case M_NT: return ref_nt (pw, pl, setting, out);
    case M_SCRYPT: return ref_scrypt7 (pw, pl, setting, out);
    case M_YESCRYPT: return ref_yescrypt_flavor0 (pw, pl, setting, out);
    case M_DES: return ref_descrypt (pw, pl, setting, out);
    case M_BIG: return ref_bigcrypt (pw, pl, setting, out);
    case M_BSDI: return ref_bsdicrypt (pw, pl, setting, out);
    default: return 0;
    }
}

static void
compare (int si, const char *pw, size_t pl, const char *replay)
{
  const struct setdef *S = &sets[si];
  char sig[200], mine[CRYPT_OUTPUT_SIZE], refo[CRYPT_OUTPUT_SIZE + 64];
  char *h = 0;
  /* the published value must come out whatever the object held before (alternating garbage patterns and zero) */
  /* pattern and entry errno are functions of the case, so that a replay of one case meets the same conditions */
  unsigned flip = (unsigned) (vh_hash_str (replay, 5) % 12);
  static const int entry_errno[4] = { 0, ERANGE, EINVAL, ENOMEM };
  memset (d1, (flip % 3) == 0 ? 0 : (flip % 3) == 1 ? 0xA5 : 0x4E, sizeof *d1);
  int k = VH_TRY (0);
  if (k == 0)
    {
      errno = entry_errno[flip / 3];
      h = crypt_rn (pw, S->s, d1, sizeof *d1);
      VH_END ();
    }
  vh_stat ("evaluations", 1);
  if (k)
    {
      snprintf (sig, sizeof sig, "fatal/%s/method=%s", vh_fatal_name (k), vh_methods[S->m].name);
      vh_viol (sig, "{\"setting\":%s,\"phrase_len\":%zu,\"outcome\":\"%s\",\"replay\":\"%s\"}", vh_jstr (S->s), pl, vh_js (vh_fatal_msg, strlen (vh_fatal_msg)), replay);
      return;
    }
  snprintf (mine, sizeof mine, "%s", h ? h : "(null)");
  char *r = rel_crypt_rn (pw, S->s, d2, sizeof *d2);
  vh_stat ("release_comparisons", 1);
  if ((!h) != (!r) || (h && strcmp (mine, r)))
    {
      snprintf (sig, sizeof sig, "differs-from-release-4.4.33/method=%s", vh_methods[S->m].name);
      vh_viol (sig, "{\"setting\":%s,\"phrase_len\":%zu,\"phrase\":\"%s\",\"tree\":%s,\"release\":%s,\"replay\":\"%s\"}", vh_jstr (S->s), pl,
               vh_js (pw, pl > 48 ? 48 : pl), vh_jstr (h ? mine : 0), vh_jstr (r), replay);
      return;
    }
  if (!h)
    {
      vh_stat ("both_refuse", 1);
      return;
    }
  if (vh_distinct (vh_hash_str (mine, 2)))
    vh_stat ("distinct_nontrivial", 1);
  if (model (S->m, pw, pl, S->s, refo))
    {
      vh_stat ("model_comparisons", 1);
      if (strcmp (mine, refo))
        {
          snprintf (sig, sizeof sig, "differs-from-specification-model/method=%s", vh_methods[S->m].name);
          vh_viol (sig, "{\"setting\":%s,\"phrase_len\":%zu,\"phrase\":\"%s\",\"tree\":%s,\"model\":%s,\"replay\":\"%s\"}", vh_jstr (S->s), pl,
                   vh_js (pw, pl > 48 ? 48 : pl), vh_jstr (mine), vh_jstr (refo), replay);
        }
    }
  /* gost-yescrypt outer layer: HMAC-Streebog-256(HMAC-Streebog-256(Streebog-256(K), S), yescrypt(K, S)) */
  if (S->m == M_GOST)
    {
      char ys[220], yh[CRYPT_OUTPUT_SIZE];
      snprintf (ys, sizeof ys, "$y$%s", S->s + 4);
      char *y = rel_crypt_rn (pw, ys, d2, sizeof *d2);
      if (y)
        {
          strcpy (yh, y);
          if (ref_gost_outer (pw, pl, S->s, yh, refo))
            {
              vh_stat ("model_comparisons", 1);
              if (strcmp (mine, refo))
                {
                  snprintf (sig, sizeof sig, "differs-from-specification-model/method=gost_yescrypt");
                  vh_viol (sig, "{\"setting\":%s,\"phrase_len\":%zu,\"tree\":%s,\"model\":%s,\"replay\":\"%s\"}", vh_jstr (S->s), pl, vh_jstr (mine), vh_jstr (refo), replay);
                }
            }
        }
    }
}

static void
case_lb (int si, int li, int fill)
{
  char ph[520], rp[48];
  size_t n = mkphrase (ph, li, fill);
  snprintf (rp, sizeof rp, "l:%d:%d:%d", si, li, fill);
  compare (si, ph, n, rp);
}

static void
case_full (int si, int len, int fill)
{
  char ph[520], rp[48];
  vh_fill (ph, (size_t) len, "AP"[fill]);
  snprintf (rp, sizeof rp, "f:%d:%d:%d", si, len, fill);
  compare (si, ph, (size_t) len, rp);
}

/* small scope + bcrypt specials */
static const char *const special[] = { "\xff\xff\xa3", "\xa3", "\xff\xa3" "345", "\xa3" "ab", "\xd1\x91", "\xd0\xc1\xd2\xcf\xcc\xd8", "\xaa\xaa\xaa\xaa\xaa\xaa\xaa\xaa\xaa\xaa\xaa\xaa",
  "\x55\xaa\xff\x55\xaa\xff", "\xff", "\xff\xff", "\x80", "\x01", "a\x80" "b", "U*U", "U*U*", "U*U*U", "" };
#define NSPECIAL ((int) (sizeof special / sizeof *special))

static void
case_small (int si, int v)
{
  char ph[8], rp[48];
  static const unsigned char al[4] = { 0x01, 'a', 0x80, 0xff };
  snprintf (rp, sizeof rp, "s:%d:%d", si, v);
  if (v < 0)
    {
      compare (si, special[-v - 1], strlen (special[-v - 1]), rp);
      return;
    }
  int len = 0, base = 0, total = 1;
  while (v >= base + total)
    {
      base += total;
      total *= 4;
      len++;
    }
  int x = v - base;
  for (int i = 0; i < len; i++, x /= 4)
    ph[i] = (char) al[x % 4];
  ph[len] = 0;
  compare (si, ph, (size_t) len, rp);
}

int
main (int argc, char **argv)
{
  vh_init (argc, argv);
  vh_mmap_cap = (size_t) 64 << 20;
  if (!gcry_check_version (0))
    vh_internal ("libgcrypt init failed");
  gcry_control (GCRYCTL_DISABLE_SECMEM, 0);
  gcry_control (GCRYCTL_INITIALIZATION_FINISHED, 0);
  void *rel = dlopen ("/lib/x86_64-linux-gnu/libcrypt.so.1", RTLD_NOW | RTLD_LOCAL);
  if (!rel)
    vh_internal ("cannot load the released libcrypt.so.1: %s", dlerror ());
  rel_crypt_rn = (crypt_rn_fn) dlvsym (rel, "crypt_rn", "XCRYPT_2.0");
  if (!rel_crypt_rn || rel_crypt_rn == (crypt_rn_fn) crypt_rn)
    vh_internal ("released crypt_rn not resolved separately");
  if (!ref_des_selftest ())
    vh_internal ("reference DES disagrees with libgcrypt DES (model error)");
  d1 = calloc (1, sizeof *d1);
  d2 = calloc (1, sizeof *d2);
  mksets ();
  if (vh_replay && *vh_replay)
    {
      int a, b, c;
      if (sscanf (vh_replay, "l:%d:%d:%d", &a, &b, &c) == 3)
        case_lb (a, b, c);
      else if (sscanf (vh_replay, "f:%d:%d:%d", &a, &b, &c) == 3)
        case_full (a, b, c);
      else if (sscanf (vh_replay, "s:%d:%d", &a, &b) == 2)
        case_small (a, b);
      else
        vh_internal ("bad replay token");
      vh_done ();
      return 0;
    }
  uint64_t idx = 0;
  static const int reduced[] = { 0, 1, 4, 5, 16, 17, 19, 20, 26, 27, 31, 35 };   /* indexes into Lb: 0,1,8,9,55,56,64,65,127,128,255,511 */
  for (int si = 0; si < nsets && !vh_expired (); si++)
    {
      int m = sets[si].m;
      int slow = m == M_SUNMD5;
      /* boundary lengths x 4 fills (primary settings), reduced set otherwise */
      if (sets[si].primary)
        {
          for (int li = 0; li < VH_NLB; li++)
            for (int f = 0; f < 4; f++)
              if (vh_mine (idx++))
                case_lb (si, li, f);
          for (int len = 0; len < 512; len++)
            for (int f = 0; f < 2; f++)
              {
                if (!vh_thorough && (slow || m == M_SHA512 || m == M_SHA256) && (len % 4 != 3) && len > 130)
                  continue;
                if (vh_mine (idx++))
                  case_full (si, len, f);
              }
          int nsmall = vh_thorough ? 341 : 85;
          for (int v = -NSPECIAL; v < nsmall; v++)
            if (vh_mine (idx++))
              case_small (si, v);
          if (vh_mine (idx))
            vh_sample ("{\"setting\":%s,\"primary\":true,\"phrases\":\"36 boundary lengths x 4 fills, every length 0..511 x 2 fills, small scope, 8-bit specials\"}", vh_jstr (sets[si].s));
        }
      else if (vh_thorough)
        {
          /* thorough: every boundary length x all 4 fills for every setting */
          for (int li = 0; li < VH_NLB; li++)
            for (int f = 0; f < 4; f++)
              {
                if (slow && (li % 2 || f % 2))
                  continue;
                if (vh_mine (idx++))
                  case_lb (si, li, f);
              }
        }
      else
        for (unsigned q = 0; q < sizeof reduced / sizeof *reduced; q++)
          {
            if (slow && q % 3)
              continue;
            if (vh_mine (idx++))
              case_lb (si, reduced[q], (int) (q + (unsigned) si) % 4);
          }
    }
  if (vh_shard == 0)
    vh_stat ("settings", nsets);
  vh_done ();
  return 0;
}
