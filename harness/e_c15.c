/* C15: allocation and mapping failures are reported cleanly and leak nothing.
   Fault enumeration: for every call of the corpus, count the allocator/mapping requests it
   issues, then fail every single position and every ordered pair; after each faulted call run
   the same call again without faults on the same objects. */
#define _GNU_SOURCE
#include "vh_rt.h"
#include "vh_methods.h"
#include <crypt.h>
#include <stdlib.h>

struct call
{
  int ep;                       /* 0 crypt_rn 1 crypt_r 2 crypt_ra 3 crypt 4 gensalt_ra 5 gensalt_rn(NULL rbytes) 6 gensalt (static, NULL rbytes) */
  int ra_start;                 /* crypt_ra: 0 (NULL,0)  1 small block  2 adequate block */
  char setting[96];
  const char *label;
};
static struct call *calls;
static int ncalls;

static void
addcall (int ep, int ra_start, const char *setting, const char *label)
{
  calls = realloc (calls, (size_t) (ncalls + 1) * sizeof *calls);
  calls[ncalls].ep = ep;
  calls[ncalls].ra_start = ra_start;
  snprintf (calls[ncalls].setting, sizeof calls[ncalls].setting, "%s", setting);
  calls[ncalls].label = label;
  ncalls++;
}

static void
mkcorpus (void)
{
  for (int m = 0; m < M_COUNT; m++)
    {
      for (int ep = 0; ep < 4; ep++)
        {
          if (ep == 2)
            for (int st = 0; st < 3; st++)
              addcall (ep, st, vh_cheap[m][0], vh_methods[m].name);
          else
            addcall (ep, 0, vh_cheap[m][0], vh_methods[m].name);
        }
      if (vh_thorough)
        for (int ep = 0; ep < 3; ep++)
          addcall (ep, ep == 2 ? 1 : 0, vh_cheap[m][1], vh_methods[m].name);
      addcall (4, 0, vh_methods[m].tag, vh_methods[m].name);
      addcall (5, 0, vh_methods[m].tag, vh_methods[m].name);
      addcall (6, 0, vh_methods[m].tag, vh_methods[m].name);
    }
  /* 32 MiB regions: the MAP_HUGETLB attempt and its fallback both exist */
  static const char *const big[] = { "$y$jC5$saltSALTsalt", "$gy$jC5$saltSALTsalt", "$7$D6..../....saltSALTsalt" };
  for (int i = 0; i < 3; i++)
    for (int ep = 0; ep < 4; ep++)
      addcall (ep, ep == 2 ? 1 : 0, big[i], "32MiB");
}

static struct crypt_data *obj;
static void *ra_data;
static int ra_size;
static char cj[700];

struct outcome { char res[CRYPT_OUTPUT_SIZE]; int isnull; int err; int fatal; long reqs; char log[64]; int scratch_dirty; };

static void
setup_objects (const struct call *c)
{
  memset (obj, 0, sizeof *obj);
  if (c->ep == 2)
    {
      if (ra_data)
        {
          vh_seam_armed = 0;
          free (ra_data);
          ra_data = 0;
        }
      ra_size = 0;
      if (c->ra_start)
        {
          size_t n = c->ra_start == 1 ? 100 : sizeof (struct crypt_data);
          vh_seam_armed = 1;
          ra_data = malloc (n);       /* known to the ledger, but the caller's, not the library's */
          vh_seam_armed = 0;
          vh_ledger_find (ra_data)->by_lib = 0;
          memset (ra_data, c->ra_start == 1 ? 0x6B : 0, n);
          ra_size = (int) n;
        }
    }
}

static long f3_global;
static void
run (const struct call *c, long f1, long f2, struct outcome *o)
{
  static const unsigned char rb[64] = "0123456789abcdefghijklmnopqrstuvwxyzABCDEFGHIJKLMNOPQRSTUVWXYZ./";
  char *r = 0, *tofree = 0;
  char out[CRYPT_GENSALT_OUTPUT_SIZE];
  memset (o, 0, sizeof *o);
  vh_req_count = 0;
  vh_req_log[0] = 0;
  vh_fail_at[0] = f1;
  vh_fail_at[1] = f2;
  vh_fail_at[2] = f1 && f2 ? f3_global : 0;
  vh_ent_counter = 77;
  errno = 0;
  vh_seam_armed = 1;
  int k = VH_TRY (0);
  if (k == 0)
    {
      switch (c->ep)
        {
        case 0: r = crypt_rn ("pw", c->setting, obj, sizeof *obj); break;
        case 1: r = crypt_r ("pw", c->setting, obj); break;
        case 2: r = crypt_ra ("pw", c->setting, &ra_data, &ra_size); break;
        case 3: r = crypt ("pw", c->setting); break;
        case 4: r = tofree = crypt_gensalt_ra (c->setting, 0, (const char *) rb, 64); break;
        case 5: r = crypt_gensalt_rn (c->setting, 0, 0, 0, out, sizeof out); break;
        default: r = crypt_gensalt (c->setting, 0, 0, 0); break;
        }
      VH_END ();
    }
  o->err = errno;
  vh_seam_armed = 0;
  vh_fail_at[0] = vh_fail_at[1] = vh_fail_at[2] = 0;
  o->fatal = k;
  o->reqs = vh_req_count;
  snprintf (o->log, sizeof o->log, "%s", vh_req_log);
  o->isnull = r == 0;
  snprintf (o->res, sizeof o->res, "%s", r ? r : "");
  if (c->ep <= 2)
    {
      struct crypt_data *d = c->ep == 2 ? ra_data : obj;
      /* the recorded size may lie (that is one of the things being checked): trust the ledger's real size */
      if (d && (c->ep != 2 || (ra_size >= (int) sizeof *d && vh_ledger_find (ra_data) && vh_ledger_find (ra_data)->n >= sizeof *d)))
        {
          for (size_t i = 0; i < sizeof d->internal; i++)
            if (d->internal[i])
              o->scratch_dirty = 1;
          for (size_t i = 0; i < sizeof d->reserved; i++)
            if (d->reserved[i])
              o->scratch_dirty = 1;
          if (d->initialized)
            o->scratch_dirty = 1;
        }
    }
  if (tofree)
    {
      vh_seam_armed = 1;
      free (tofree);
      vh_seam_armed = 0;
    }
}

static int
is_failure (const struct call *c, const struct outcome *o)
{
  if (c->ep == 1 || c->ep == 3)
    return o->isnull || o->res[0] == '*';
  return o->isnull;
}

/* library-made blocks/mappings still live, not counting the caller-owned crypt_ra block */
static int
leaked (const struct call *c, int *maps)
{
  int n = 0;
  *maps = 0;
  for (int i = 0; i < vh_nledger; i++)
    if (vh_ledger[i].live && vh_ledger[i].by_lib)
      {
        if (c->ep == 2 && vh_ledger[i].p == ra_data)
          continue;
        n++;
        if (vh_ledger[i].kind == 'M')
          (*maps)++;
      }
  return n;
}

static void
release_leaked_maps (void)
{
  for (int i = 0; i < vh_nledger; i++)
    if (vh_ledger[i].live && vh_ledger[i].kind == 'M')
      munmap (vh_ledger[i].p, vh_ledger[i].n);
}

static void
one_call (int ci)
{
  const struct call *c = &calls[ci];
  struct outcome ref, o, again;
  char sig[220];
  static const char *const epn[] = { "crypt_rn", "crypt_r", "crypt_ra", "crypt", "crypt_gensalt_ra", "crypt_gensalt_rn(NULL rbytes)", "crypt_gensalt(NULL rbytes)" };
  vh_ledger_reset ();
  setup_objects (c);
  run (c, 0, 0, &ref);
  vh_stat ("evaluations", 1);
  int dummy;
  if (ref.fatal || (is_failure (c, &ref) && strcmp (c->setting, "$2x$")) || leaked (c, &dummy))
    {
      snprintf (sig, sizeof sig, "unfaulted-reference-call-misbehaves/entry=%s", epn[c->ep]);
      vh_viol (sig, "{\"entry\":\"%s\",\"setting\":%s,\"errno\":%d,\"replay\":\"%d\"}", epn[c->ep], vh_jstr (c->setting), ref.err, ci);
      return;
    }
  long K = ref.reqs;
  vh_stat ("calls", 1);
  vh_statmax ("max_requests_per_call", K);
  if (K == 0)
    {
      vh_stat ("calls_without_requests", 1);
      return;
    }
  if (vh_distinct (vh_hash_str (ref.log, (uint64_t) ci)))
    vh_stat ("distinct_nontrivial", 1);
  for (long f1 = 1; f1 <= K + 1; f1++)
    for (long f2 = 0; f2 <= K + 2; f2++)
     for (long f3 = 0; f3 <= (vh_thorough && f2 ? K + 3 : 0); f3++)
      {
        if (f2 != 0 && f2 <= f1)
          continue;
        if (f3 != 0 && f3 <= f2)
          continue;
        f3_global = f3;
        if (f1 == K + 1 && f2 == 0)
          continue;             /* beyond the last request: no fault happens */
        vh_ledger_reset ();
        setup_objects (c);
        run (c, f1, f2, &o);
        vh_stat ("evaluations", 1);
        vh_stat (f3 ? "fault_triples" : f2 ? "fault_pairs" : "single_faults", 1);
        snprintf (cj, sizeof cj, "{\"entry\":\"%s\",\"method\":\"%s\",\"setting\":%s,\"ra_start\":%d,\"unfaulted_requests\":\"%s\",\"fail_positions\":[%ld,%ld,%ld],\"requests_seen\":\"%s\",\"replay\":\"%d\"",
                  epn[c->ep], c->label, vh_jstr (c->setting), c->ra_start, ref.log, f1, f2, f3, o.log, ci);
        int faulted = o.reqs >= f1;
        const char *why = 0;
        int maps = 0;
        int munmap_failed = 0, only_optional_failed = 1;
        /* which requests did we fail: a failed munmap legitimately leaves its mapping; a failed huge-page attempt ('H')
           is the one request the library documents as optional */
        for (long q = 0; q < (long) strlen (o.log); q++)
          if (q + 1 == f1 || q + 1 == f2 || q + 1 == f3)
            {
              if (o.log[q] == 'U')
                munmap_failed = 1;
              if (o.log[q] != 'H' && o.log[q] != 'f')     /* free is logged as a request but cannot fail */
                only_optional_failed = 0;
            }
        if (o.fatal)
          why = "crash";
        else if (!faulted)
          {
            if (strcmp (o.res, ref.res) || o.isnull != ref.isnull)
              why = "result changed although no request failed";
          }
        else if (is_failure (c, &o))
          {
            if (o.err != ENOMEM && o.err != EINVAL && o.err != ERANGE)
              why = "errno not a documented code";
            else if ((c->ep == 1 || c->ep == 3) && (o.isnull || (strcmp (o.res, "*0") && strcmp (o.res, "*1"))))
              why = "crypt/crypt_r did not return the failure token";
          }
        else if (strcmp (o.res, ref.res))
          why = "a hash that differs from the unfaulted result was returned";
        else if (!only_optional_failed)
          why = "a result was returned although a malloc/realloc/mmap/munmap request of the call failed";
        /* success despite the fault is only legitimate through the documented fallback (huge-page attempt) */
        if (!why && o.scratch_dirty)
          why = "scratch memory not erased";
        if (!why)
          {
            int n = leaked (c, &maps);
            if (n > (munmap_failed ? 1 : 0) || (n == 1 && maps != 1))
              why = "library-made block or mapping still live after the call";
          }
        if (!why && c->ep != 2 && vh_bad_free)
          why = "the library released (free/munmap) a range that is not exactly one it obtained during the call";
        if (!why && c->ep == 2)
          {
            /* caller's pair must stay sound: NULL or a live block */
            if ((ra_data && !vh_ledger_find (ra_data)) || vh_bad_free)
              why = "crypt_ra freed or lost the caller's block";
            /* a block the caller handed in must still be reachable through *data (or have been replaced by realloc) */
            for (int i = 0; i < vh_nledger && !why; i++)
              if (vh_ledger[i].live && vh_ledger[i].kind == 'm' && vh_ledger[i].p != ra_data)
                why = "a heap block is live but no longer reachable through *data";
            if (ra_data && ra_size >= (int) sizeof (struct crypt_data) && vh_ledger_find (ra_data) && vh_ledger_find (ra_data)->n < (size_t) ra_size)
              why = "*size exceeds the real block after a failed allocation";
          }
        if (why)
          {
            snprintf (sig, sizeof sig, "%s/entry=%s/fault=%c", why, epn[c->ep], f1 <= (long) strlen (ref.log) ? ref.log[f1 - 1] : '?');
            vh_viol (sig, "%s,\"result\":%s,\"errno\":%d,\"live_library_blocks\":%d}", cj, o.isnull ? "null" : vh_jstr (o.res), o.err, leaked (c, &maps));
            release_leaked_maps ();
            continue;
          }
        release_leaked_maps ();
        /* the next call on the same objects behaves normally */
        run (c, 0, 0, &again);
        vh_stat ("evaluations", 1);
        vh_stat ("follow_up_calls", 1);
        if (again.fatal || again.isnull != ref.isnull || strcmp (again.res, ref.res))
          {
            snprintf (sig, sizeof sig, "follow-up-call-differs/entry=%s", epn[c->ep]);
            vh_viol (sig, "%s,\"follow_up\":%s,\"reference\":%s}", cj, again.isnull ? "null" : vh_jstr (again.res), vh_jstr (ref.res));
          }
      }
  if (ci % 23 == 0)
    vh_sample ("{\"entry\":\"%s\",\"setting\":%s,\"requests\":\"%s\",\"single_faults\":%ld,\"pairs\":\"all ordered pairs\"}", epn[c->ep], vh_jstr (c->setting), ref.log, K);
}

int
main (int argc, char **argv)
{
  vh_init (argc, argv);
  vh_mmap_cap = (size_t) 80 << 20;
  obj = calloc (1, sizeof *obj);
  mkcorpus ();
  /* a crash anywhere after a faulted call (the harness walking a block whose recorded size lies, say) is reported for the
     current case rather than as an internal error */
  vh_fatal_exit = 0;
  vh_cur_case = cj;
  snprintf (cj, sizeof cj, "{\"case\":\"startup\"");
  if (vh_replay && *vh_replay)
    {
      one_call (atoi (vh_replay));
      vh_done ();
      return 0;
    }
  for (int ci = 0; ci < ncalls; ci++)
    if (vh_mine ((uint64_t) ci))
      one_call (ci);
  vh_done ();
  return 0;
}
