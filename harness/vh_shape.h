/* C06 oracles: per-method result grammars from doc/crypt.5 (widened to what the
   documentation of the parsers accepts: empty salts, '$md5$rounds=', '$' inside $7$ salts,
   sha1crypt iteration counts of any digit string). Included by e_c01.c. */
#ifndef VH_SHAPE_H
#define VH_SHAPE_H
#include <regex.h>

/* which method does a result string belong to (by leading tag, crypt.5) */
static int
method_of (const char *h)
{
  static const int order[] = { M_YESCRYPT, M_GOST, M_SCRYPT, M_BCRYPT_B, M_BCRYPT_Y, M_BCRYPT_A, M_BCRYPT_X, M_SHA512, M_SHA256,
    M_SHA1, M_SUNMD5, M_MD5, M_NT, M_BSDI
  };
  for (unsigned i = 0; i < sizeof order / sizeof *order; i++)
    if (!strncmp (h, vh_methods[order[i]].tag, strlen (vh_methods[order[i]].tag)))
      return order[i];
  return strlen (h) > 13 ? M_BIG : M_DES;
}

/* offset where the hash portion of H starts (crypt.5 formats) */
static size_t
hash_off (int m, const char *h)
{
  switch (m)
    {
    case M_BIG:
    case M_DES:
      return 2;
    case M_BSDI:
      return 9;
    case M_BCRYPT_A:
    case M_BCRYPT_B:
    case M_BCRYPT_X:
    case M_BCRYPT_Y:
      return 29;
    default:
      {
        const char *p = strrchr (h, '$');
        return p ? (size_t) (p - h) + 1 : strlen (h);
      }
    }
}


#define B64 "[./0-9A-Za-z]"
static const char *const shape_re[M_COUNT] = {
  [M_YESCRYPT] = "^\\$y\\$" B64 "+\\$" B64 "{0,86}\\$" B64 "{43}$",
  [M_GOST] = "^\\$gy\\$" B64 "+\\$" B64 "{0,86}\\$" B64 "{43}$",
  [M_SCRYPT] = "^\\$7\\$" B64 "{11}[./0-9A-Za-z$]*\\$" B64 "{43}$",
  [M_BCRYPT_B] = "^\\$2b\\$[0-9]{2}\\$" B64 "{53}$",
  [M_BCRYPT_Y] = "^\\$2y\\$[0-9]{2}\\$" B64 "{53}$",
  [M_BCRYPT_A] = "^\\$2a\\$[0-9]{2}\\$" B64 "{53}$",
  [M_BCRYPT_X] = "^\\$2x\\$[0-9]{2}\\$" B64 "{53}$",
  [M_SHA512] = "^\\$6\\$(rounds=[1-9][0-9]+\\$)?[^$:]{0,16}\\$" B64 "{86}$",
  [M_SHA256] = "^\\$5\\$(rounds=[1-9][0-9]+\\$)?[^$:]{0,16}\\$" B64 "{43}$",
  [M_SHA1] = "^\\$sha1\\$[0-9]+\\$" B64 "+\\$" B64 "{28}$",
  [M_SUNMD5] = "^\\$md5[,$](rounds=[1-9][0-9]*\\$)?" B64 "*\\${1,2}" B64 "{22}$",
  [M_MD5] = "^\\$1\\$[^$:]{0,8}\\$" B64 "{22}$",
  [M_NT] = "^\\$3\\$\\$[0-9a-f]{32}$",
  [M_BSDI] = "^_" B64 "{19}$",
  [M_BIG] = "^" B64 "{13,178}$",
  [M_DES] = "^" B64 "{13}$",
};
static regex_t shape_rx[M_COUNT];
static int shape_ready;

static void
shape_init (void)
{
  if (shape_ready)
    return;
  for (int m = 0; m < M_COUNT; m++)
    if (regcomp (&shape_rx[m], shape_re[m], REG_EXTENDED | REG_NOSUB))
      vh_internal ("regcomp failed for %s", vh_methods[m].name);
  shape_ready = 1;
}

static int
shape_passwd_safe (const char *s)
{
  for (; *s; s++)
    if ((unsigned char) *s <= 0x20 || (unsigned char) *s >= 0x7f || strchr (":;*!\\", *s))
      return 0;
  return 1;
}

/* H is a successful result for (phrase, S).  GM: method the setting was generated for. */
static void
check_shape (const char *phrase, size_t plen, const char *S, const char *H, int gm, const char *cj, struct crypt_data *d)
{
  char sig[200];
  shape_init ();
  vh_stat ("shape_checked", 1);
  if (strlen (H) >= CRYPT_OUTPUT_SIZE || !shape_passwd_safe (H) || H[0] == '*' || !H[0])
    {
      snprintf (sig, sizeof sig, "not-passwd-safe/method=%s", vh_methods[gm].name);
      vh_viol (sig, "%s,\"H\":%s}", cj, vh_jstr (H));
      return;
    }
  /* same method prefix as the setting */
  int m = method_of (H), ms = method_of (S);
  int fam = (m == M_BIG || m == M_DES) && (ms == M_BIG || ms == M_DES);
  if (m != ms && !fam)
    {
      snprintf (sig, sizeof sig, "prefix-changed/method=%s", vh_methods[gm].name);
      vh_viol (sig, "%s,\"H\":%s}", cj, vh_jstr (H));
      return;
    }
  if (fam && (H[0] != S[0] || H[1] != S[1]))
    {
      vh_viol ("des-salt-not-kept", "%s,\"H\":%s}", cj, vh_jstr (H));
      return;
    }
  if (regexec (&shape_rx[m], H, 0, 0, 0) || (m == M_BIG && (strlen (H) - 2) % 11 != 0))
    {
      snprintf (sig, sizeof sig, "shape-mismatch/method=%s", vh_methods[m].name);
      vh_viol (sig, "%s,\"H\":%s,\"grammar\":%s}", cj, vh_jstr (H), vh_jstr (shape_re[m]));
      return;
    }
  /* accepted as a setting */
  char *h2 = 0;
  memset (d, 0x3B, sizeof *d);
  int k = VH_TRY (0);
  if (k == 0)
    {
      h2 = crypt_rn (phrase, H, d, sizeof *d);
      VH_END ();
    }
  vh_stat ("evaluations", 1);
  if (k || !h2)
    {
      if (!k && errno == ERANGE && strlen (H) + 45 > CRYPT_OUTPUT_SIZE)
        snprintf (sig, sizeof sig, "result-refused-as-setting-ERANGE-longer-than-339/method=%s", vh_methods[m].name);
      else
        snprintf (sig, sizeof sig, "result-not-accepted-as-setting/method=%s", vh_methods[m].name);
      vh_viol (sig, "%s,\"H\":%s}", cj, vh_jstr (H));
      return;
    }
  if (crypt_checksalt (H) == CRYPT_SALT_INVALID)
    {
      snprintf (sig, sizeof sig, "checksalt-invalid/method=%s", vh_methods[m].name);
      vh_viol (sig, "%s,\"H\":%s}", cj, vh_jstr (H));
      return;
    }
  /* accepted as a gensalt prefix selecting the same method ($2x$: selects the method, whose generator refuses by design) */
  static unsigned char rb[64];
  if (!rb[1])
    for (int i = 0; i < 64; i++)
      rb[i] = vh_fillP ((size_t) i);
  char g[CRYPT_GENSALT_OUTPUT_SIZE];
  errno = 0;
  char *gr = 0;
  k = VH_TRY (0);
  if (k == 0)
    {
      gr = crypt_gensalt_rn (H, 0, (const char *) rb, 64, g, sizeof g);
      VH_END ();
    }
  vh_stat ("evaluations", 1);
  int ok;
  if (m == M_BCRYPT_X)
    ok = !k && !gr && errno == EINVAL;
  else if (m == M_BIG || m == M_DES)
    ok = !k && gr && strlen (gr) == 2 && strchr (A64, gr[0]) && strchr (A64, gr[1]);
  else
    ok = !k && gr && method_of (gr) == m;
  if (!ok)
    {
      snprintf (sig, sizeof sig, "result-not-a-gensalt-prefix/method=%s", vh_methods[m].name);
      vh_viol (sig, "%s,\"H\":%s,\"gensalt\":%s,\"errno\":%d}", cj, vh_jstr (H), vh_jstr (gr), errno);
    }
}

/* digest-value diversity: at the cheapest setting, distinct phrases until every position of
   the hash portion has shown every character the encoding allows there */
static void
shape_diversity (int m, struct crypt_data *d1, struct crypt_data *d2)
{
  shape_init ();
  int n = vh_thorough ? 20000 : 4096;
  const char *S = vh_cheap[m][1];
  if (m == M_YESCRYPT || m == M_GOST || m == M_SCRYPT || m == M_SHA1 || m == M_BSDI)
    S = vh_cheap[m][1];
  static unsigned char seen[200][128];
  memset (seen, 0, sizeof seen);
  size_t ho = 0, hl = 0;
  char sig[160], cjd[300];
  for (int i = 0; i < n; i++)
    {
      char ph[64];
      int pl = snprintf (ph, sizeof ph, "p%dw%x", i, (unsigned) (i * 2654435761u));
      if (m == M_BIG)
        pl = snprintf (ph, sizeof ph, "p%dw%x-long-enough-for-two", i, (unsigned) (i * 2654435761u));
      char *h = crypt_rn (ph, S, d1, sizeof *d1);
      vh_stat ("evaluations", 1);
      vh_stat ("diversity_hashes", 1);
      if (!h)
        {
          snprintf (sig, sizeof sig, "diversity-hash-failed/method=%s", vh_methods[m].name);
          vh_viol (sig, "{\"setting\":%s,\"phrase\":%s,\"replay\":\"div:%d\"}", vh_jstr (S), vh_jstr (ph), m);
          return;
        }
      snprintf (cjd, sizeof cjd, "{\"phrase\":%s,\"setting\":%s,\"replay\":\"div:%d\"", vh_jstr (ph), vh_jstr (S), m);
      if (i % 16 == 0)
        check_shape (ph, (size_t) pl, S, h, m, cjd, d2);
      else if (regexec (&shape_rx[method_of (h)], h, 0, 0, 0) || !shape_passwd_safe (h))
        {
          snprintf (sig, sizeof sig, "shape-mismatch/method=%s", vh_methods[m].name);
          vh_viol (sig, "%s,\"H\":%s}", cjd, vh_jstr (h));
          return;
        }
      ho = hash_off (method_of (h), h);
      hl = strlen (h) - ho;
      if (hl > 200)
        hl = 200;
      for (size_t j = 0; j < hl; j++)
        seen[j][(unsigned char) h[ho + j] & 127] = 1;
    }
  /* expected number of distinct characters per position from the bit budget of the encoding */
  int digest_bits = 0, hex = 0;
  switch (m)
    {
    case M_YESCRYPT: case M_GOST: case M_SCRYPT: case M_SHA256: digest_bits = 256; break;
    case M_BCRYPT_A: case M_BCRYPT_B: case M_BCRYPT_X: case M_BCRYPT_Y: digest_bits = 184; break;
    case M_SHA512: digest_bits = 512; break;
    case M_SHA1: digest_bits = 168; break;        /* 160 + first byte repeated */
    case M_SUNMD5: case M_MD5: digest_bits = 128; break;
    case M_NT: digest_bits = 128; hex = 1; break;
    case M_BSDI: case M_DES: digest_bits = 64; break;
    case M_BIG: digest_bits = 64; hl = 11; break;  /* first segment */
    }
  for (size_t j = 0; j < hl; j++)
    {
      int cnt = 0;
      for (int c = 0; c < 128; c++)
        cnt += seen[j][c];
      int per = hex ? 4 : 6;
      int left = digest_bits - (int) j * per;
      int want = left >= per ? (1 << per) : (1 << left);
      /* encodings that pack bytes little-endian put the short group last as well, so the count is what matters */
      vh_stat ("positions_checked", 1);
      if (cnt != want)
        {
          snprintf (sig, sizeof sig, "alphabet-coverage/method=%s", vh_methods[m].name);
          vh_viol (sig, "{\"setting\":%s,\"hash_position\":%zu,\"distinct_characters_seen\":%d,\"encoding_allows\":%d,\"phrases\":%d,\"replay\":\"div:%d\"}",
                   vh_jstr (S), j, cnt, want, n, m);
          return;
        }
    }
  vh_sample ("{\"slab\":\"diversity\",\"method\":\"%s\",\"setting\":%s,\"phrases\":%d,\"hash_positions\":%zu}", vh_methods[m].name, vh_jstr (S), n, hl);
}
#endif
