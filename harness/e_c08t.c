/* C08 free-running pass: the same operation bodies on 4 real threads under the real
   ThreadSanitizer runtime (clang -fsanitize=thread, library and harness instrumented).
   A cooperative scheduler's hand-offs would be happens-before edges that blind the detector,
   so this pass runs unscheduled; it does not decide the property by itself (sampling of
   schedules), it keeps unsynchronised accesses visible that the hook runtime might not see
   (e.g. inside a libc routine that is not interposed).  Reports are read from stderr by the driver. */
#define _GNU_SOURCE
#include <crypt.h>
#include <errno.h>
#include <pthread.h>
#include <stdio.h>
#include <stdlib.h>
#include <string.h>

#define NT 4
static const char *const settings[] = {
  "$y$j/.$ABCDEFGH$", "$gy$j/.$ABCDEFGH$", "$7$2/..../....ABCDEFGH$", "$2b$04$abcdefghijklmnopqrstuu", "$2y$04$abcdefghijklmnopqrstuu",
  "$2a$04$abcdefghijklmnopqrstuu", "$2x$04$abcdefghijklmnopqrstuu", "$6$rounds=1000$saltSALTsaltSALT", "$5$rounds=1000$saltSALTsaltSALT",
  "$sha1$24$saltSALTsalt", "$md5$saltSALT", "$1$saltSALT", "$3$", "_/...salt", "ab............", "ab"
};
#define NS ((int) (sizeof settings / sizeof *settings))
static const char *const prefixes[] = { "$y$", "$gy$", "$7$", "$2b$", "$2y$", "$2a$", "$6$", "$5$", "$sha1", "$md5", "$1$", "$3$", "_", "", 0 };
#define NP ((int) (sizeof prefixes / sizeof *prefixes))

static char solo_hash[NT][NS][CRYPT_OUTPUT_SIZE];
static char solo_salt[NT][NP][CRYPT_GENSALT_OUTPUT_SIZE];
static pthread_barrier_t bar;
static long mismatches[NT], calls[NT];
static int canary_mode, iterations = 3;

static void
phrase_of (int t, char *p)
{
  sprintf (p, "thread-%d-passphrase", t);
}

static void *
worker (void *arg)
{
  int t = (int) (long) arg;
  struct crypt_data *d = calloc (1, sizeof *d);
  void *ra = 0;
  int rasz = 0;
  char P[64], rb[64], out[CRYPT_GENSALT_OUTPUT_SIZE];
  phrase_of (t, P);
  for (int i = 0; i < 64; i++)
    rb[i] = (char) (t * 83 + i * 7 + 1);
  pthread_barrier_wait (&bar);
  for (int it = 0; it < iterations; it++)
    {
      for (int k = 0; k < NS; k++)
        {
          int s = (k + t * 5) % NS;      /* different threads start on different methods and collide later */
          if (canary_mode)
            s = 11 + (s % 2) * 4 ;       /* md5crypt / descrypt only: racing on pointer-bearing scratch (yescrypt) would just crash */
          char *r;
          if (canary_mode)
            r = crypt (P, settings[s]);
          else
            r = (it + t) % 3 == 0 ? crypt_rn (P, settings[s], d, sizeof *d) : (it + t) % 3 == 1 ? crypt_r (P, settings[s], d) : crypt_ra (P, settings[s], &ra, &rasz);
          calls[t]++;
          if (!r || strcmp (r, solo_hash[t][s]))
            mismatches[t]++;
        }
      for (int k = 0; k < NP; k++)
        {
          int p = (k + t * 3) % NP;
          char *r = canary_mode ? crypt_gensalt (prefixes[p], 0, rb, 32) : crypt_gensalt_rn (prefixes[p], 0, rb, 32, out, sizeof out);
          calls[t]++;
          if (!r || strcmp (r, solo_salt[t][p]))
            mismatches[t]++;
          if (!canary_mode)
            {
              char *g = crypt_gensalt_ra (prefixes[p], 0, rb, 32);
              if (!g || strcmp (g, solo_salt[t][p]))
                mismatches[t]++;
              free (g);
              r = crypt_gensalt_rn (prefixes[p], 0, 0, 0, out, sizeof out);      /* OS entropy path */
              if (!r)
                mismatches[t]++;
              (void) crypt_checksalt (settings[p % NS]);
              (void) crypt_preferred_method ();
              calls[t] += 4;
            }
        }
    }
  free (d);
  free (ra);
  return 0;
}

int
main (int argc, char **argv)
{
  for (int i = 1; i < argc; i++)
    {
      if (!strcmp (argv[i], "canary"))
        canary_mode = 1;
      if (!strcmp (argv[i], "--tier") && i + 1 < argc && !strcmp (argv[i + 1], "thorough"))
        iterations = 12;
    }
  struct crypt_data *d = calloc (1, sizeof *d);
  for (int t = 0; t < NT; t++)
    {
      char P[64], rb[64], out[CRYPT_GENSALT_OUTPUT_SIZE];
      phrase_of (t, P);
      for (int i = 0; i < 64; i++)
        rb[i] = (char) (t * 83 + i * 7 + 1);
      for (int s = 0; s < NS; s++)
        {
          char *r = crypt_rn (P, settings[s], d, sizeof *d);
          if (!r)
            {
              printf ("E setup: %s does not hash\n", settings[s]);
              return 2;
            }
          strcpy (solo_hash[t][s], r);
        }
      for (int p = 0; p < NP; p++)
        {
          char *r = crypt_gensalt_rn (prefixes[p], 0, rb, 32, out, sizeof out);
          if (!r)
            {
              printf ("E setup: gensalt %s fails\n", prefixes[p] ? prefixes[p] : "(null)");
              return 2;
            }
          strcpy (solo_salt[t][p], r);
        }
    }
  pthread_barrier_init (&bar, 0, NT);
  pthread_t th[NT];
  for (long t = 0; t < NT; t++)
    pthread_create (&th[t], 0, worker, (void *) t);
  long mm = 0, cc = 0;
  for (int t = 0; t < NT; t++)
    {
      pthread_join (th[t], 0);
      mm += mismatches[t];
      cc += calls[t];
    }
  printf ("S evaluations %ld\n", cc);
  printf ("S free_running_calls %ld\n", cc);
  printf ("S %s %ld\n", canary_mode ? "canary_mismatches" : "free_running_mismatches", mm);
  if (mm && !canary_mode)
    printf ("V free-running-result-differs-from-solo\t{\"threads\":%d,\"mismatching_calls\":%ld,\"replay\":\"\"}\n", NT, mm);
  printf ("X {\"free_running\":true,\"threads\":%d,\"iterations\":%d,\"calls\":%ld,\"canary\":%s}\n", NT, iterations, cc, canary_mode ? "true" : "false");
  printf ("DONE 1\n");
  return 0;
}
