/* vh_rt: common harness runtime (case isolation, seams, reporting).
   Linked into every enumerator.  See DESIGN.md 2.2.  */
#ifndef VH_RT_H
#define VH_RT_H
#include <stddef.h>
#include <stdint.h>
#include <stdio.h>
#include <string.h>
#include <setjmp.h>
#include <errno.h>
#include <signal.h>

/* ---- command line ------------------------------------------------------ */
extern int vh_thorough;          /* tier */
extern unsigned vh_shard, vh_nshards;
extern const char *vh_replay;    /* replay argument (NULL when enumerating) */
extern long vh_seed;
void vh_init (int argc, char **argv);
/* true when case number IDX belongs to this shard */
static inline int vh_mine (uint64_t idx) { return (idx % vh_nshards) == vh_shard; }
double vh_now (void);
extern double vh_deadline;       /* absolute time; 0 = none */
int vh_expired (void);           /* deadline reached (sets the truncated flag) */

/* ---- reporting --------------------------------------------------------- */
void vh_stat (const char *key, long long add);          /* summed counters    */
void vh_statmax (const char *key, long long v);         /* max-combined       */
void vh_sample (const char *fmt, ...) __attribute__ ((format (printf, 1, 2)));
/* SIG identifies the failing class (used for known-finding matching);
   the formatted text is a JSON object describing the case. */
void vh_viol (const char *sig, const char *fmt, ...) __attribute__ ((format (printf, 2, 3)));
void vh_internal (const char *fmt, ...) __attribute__ ((format (printf, 1, 2), noreturn));
void vh_done (void);            /* prints collected stats + DONE marker */
extern long long vh_nviol;
/* distinct counting: returns 1 when FP was not seen before in this process */
int vh_distinct (uint64_t fp);
uint64_t vh_hash (const void *p, size_t n, uint64_t seed);
static inline uint64_t vh_hash_str (const char *s, uint64_t seed) { return vh_hash (s, strlen (s), seed); }
/* JSON-escape bytes into a static ring buffer (8 slots) */
const char *vh_js (const void *p, size_t n);
const char *vh_jstr (const char *s);          /* NULL -> null, else "escaped" with quotes */
const char *vh_hex (const void *p, size_t n);

/* ---- fatal outcomes as data ------------------------------------------- */
enum { VH_OK = 0, VH_ASSERT = 1, VH_ABORT = 2, VH_SIGNAL = 3, VH_TIMEOUT = 4 };
extern sigjmp_buf vh_env;
extern volatile int vh_armed;
extern volatile int vh_fatal_sig;
extern char vh_fatal_msg[256];
void vh_arm_timer (unsigned ms);
void vh_disarm_timer (void);
/* usage: int k = VH_TRY(ms); if (k == 0) { ...library call...; VH_END(); } else { k = outcome } */
#define VH_TRY(ms) (vh_arm_timer (ms), vh_armed = 1, sigsetjmp (vh_env, 1))
#define VH_END() do { vh_armed = 0; vh_disarm_timer (); } while (0)
const char *vh_fatal_name (int k);
/* when set, a fatal outcome (abort/assert/signal, e.g. after a sanitizer report) prints a
   violation for the current case (vh_cur_case: JSON object text, vh_cur_sig: signature tail)
   and ends the shard with status 3 instead of continuing in a possibly corrupted process */
extern int vh_fatal_exit;
extern const char *vh_cur_case, *vh_cur_sig;
extern char vh_san_desc[128];     /* filled by the sanitizer error hook when available */

/* ---- guarded memory ---------------------------------------------------- */
/* block of N usable bytes ending exactly at a PROT_NONE page; start is
   preceded by a PROT_NONE page too when N is a multiple of the page size */
void *vh_guard_alloc (size_t n);
void vh_guard_free (void *p, size_t n);
/* a heap block of n bytes followed by previously used heap (0xEE residue): realloc up to cap bytes keeps the address */
void *vh_inplace_alloc (size_t n, size_t cap);
int vh_is_guard_block (const void *p);
/* string copied so that its NUL is the last accessible byte */
char *vh_guard_str (const char *s, size_t n);

/* ---- mmap seam (always present) ---------------------------------------- */
extern size_t vh_mmap_cap;           /* requests above this answer ENOMEM */
extern long vh_mmap_calls, vh_munmap_calls, vh_mmap_live;
extern size_t vh_mmap_live_bytes, vh_mmap_peak;
extern long vh_mmap_capped;
/* fault schedule: the k-th (1-based) seam request (malloc/realloc/mmap/munmap,
   counted together while armed) fails.  0 = none. */
extern long vh_fail_at[3];
extern long vh_req_count;            /* requests seen while counting */
extern volatile int vh_seam_armed;            /* count/fail/ledger only while set */
extern char vh_req_log[256];         /* kinds of requests: m r f M U */
typedef void (*vh_release_cb) (const void *p, size_t n, int kind);
extern vh_release_cb vh_on_release;  /* called before free/munmap/realloc of a ledger block */
typedef void (*vh_request_cb) (int kind, size_t n);
extern vh_request_cb vh_on_request;  /* called when the library asks the allocator for memory (malloc/calloc 'm', realloc 'r'), before the answer */
typedef void (*vh_map_cb) (int kind, void *addr, size_t len);
extern vh_map_cb vh_on_map;          /* 'M' after every successful mmap, 'U' before every munmap (armed or not) */
struct vh_blk { void *p; size_t n; int kind; int live; int by_lib; size_t cap; };   /* cap > 0: realloc up to cap bytes extends the block in place */
extern struct vh_blk vh_ledger[512];
extern int vh_nledger;
extern long vh_bad_free;             /* frees of pointers not in the ledger (while armed) */
void vh_ledger_reset (void);
int vh_ledger_live (int kind);       /* count live blocks made while armed; kind 'm' heap, 'M' map, 0 all */
struct vh_blk *vh_ledger_find (const void *p);

/* ---- entropy seam ------------------------------------------------------ */
extern long vh_ent_calls;
extern size_t vh_ent_last_n;
extern uint64_t vh_ent_counter;      /* pattern state: byte i of call c = f(counter, i) */
extern unsigned char vh_ent_last[256];
void vh_ent_fill (unsigned char *p, size_t n, uint64_t ctr);
extern int vh_ent_passthrough;       /* 1: use the real arc4random_buf */

#endif
