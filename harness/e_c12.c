/* C12: generated salts carry the supplied randomness; auto entropy from the OS.
   For every salted prefix x nrbytes x base fill: decode the salt with an
   independent decoder, flip every bit of the consumed window, check sizes. */
#include "vh_rt.h"
#include "vh_methods.h"
#include <crypt.h>
#include <stdlib.h>

static const int nrb_list[] = { 0, 1, 2, 3, 4, 5, 6, 7, 8, 9, 10, 11, 12, 13, 14, 15, 16, 17, 18, 19, 20, 21, 22, 23, 24, 25,
  26, 27, 28, 29, 30, 31, 32, 33, 34, 35, 36, 37, 38, 39, 40, 41, 42, 43, 44, 45, 46, 47, 48, 49, 50, 51, 52, 53, 54, 55,
  56, 57, 58, 59, 60, 61, 62, 63, 64, 65, 66, 67, 68, 69, 70, 128, 255, 256 };
#define NNRB ((int) (sizeof nrb_list / sizeof *nrb_list))

/* salted methods, the prefix argument used, minimum nrbytes that admits any salt
   (crypt.5 / crypt_gensalt.3: descrypt 2 chars from 2 bytes, bsdicrypt 3 bytes,
   md5/sha 3 bytes per 4 characters, sunmd5 8, sha1crypt 16, bcrypt 16, (ye)scrypt 16),
   standard size in bits once nrbytes >= 16 (property text) */
struct sm { int m; const char *prefix; int std_bits; int min_bits; };
static const struct sm salted[] = {
  { M_YESCRYPT, "$y$", 128, 128 }, { M_GOST, "$gy$", 128, 128 }, { M_SCRYPT, "$7$", 128, 128 },
  { M_BCRYPT_B, "$2b$", 128, 128 }, { M_BCRYPT_Y, "$2y$", 128, 128 }, { M_BCRYPT_A, "$2a$", 128, 128 },
  { M_SHA512, "$6$", 96, 6 }, { M_SHA256, "$5$", 96, 6 }, { M_SHA1, "$sha1", 72, 6 }, { M_SUNMD5, "$md5", 48, 48 },
  { M_MD5, "$1$", 48, 6 }, { M_BSDI, "_", 24, 24 }, { M_BIG, "", 12, 12 }, { M_DES, "zz", 12, 12 },
};
#define NSM ((int) (sizeof salted / sizeof *salted))

static int
a64 (char c)
{
  const char *p = c ? strchr (A64, c) : 0;
  return p ? (int) (p - A64) : -1;
}

static int
abf (char c)
{
  const char *p = c ? strchr (ABF, c) : 0;
  return p ? (int) (p - ABF) : -1;
}

/* Decode the salt field of SETTING (method M) into the random bytes it encodes.
   *first = index of the first consumed byte in rbytes, *mask = mask applied to each
   byte (0x3f for DES salts).  Returns number of bytes, or -1 when the setting does
   not have the documented layout. */
static int
decode_salt (int m, const char *s, unsigned char *out, int *first, int *mask, int *salt_chars)
{
  *first = 0;
  *mask = 0xff;
  size_t l = strlen (s);
  switch (m)
    {
    case M_BIG:
    case M_DES:
      if (l != 2 || a64 (s[0]) < 0 || a64 (s[1]) < 0)
        return -1;
      out[0] = (unsigned char) a64 (s[0]);
      out[1] = (unsigned char) a64 (s[1]);
      *mask = 0x3f;
      *salt_chars = 2;
      return 2;
    case M_BSDI:
      {
        if (l != 9 || s[0] != '_')
          return -1;
        unsigned long v = 0;
        for (int i = 0; i < 4; i++)
          {
            if (a64 (s[5 + i]) < 0)
              return -1;
            v |= (unsigned long) a64 (s[5 + i]) << (6 * i);
          }
        out[0] = v & 0xff;
        out[1] = (v >> 8) & 0xff;
        out[2] = (v >> 16) & 0xff;
        *salt_chars = 4;
        return 3;
      }
    case M_MD5:
    case M_SHA256:
    case M_SHA512:
      {
        const char *p = s + 3;
        if (!strncmp (p, "rounds=", 7))
          {
            p = strchr (p, '$');
            if (!p)
              return -1;
            p++;
          }
        size_t n = strlen (p);
        if (n % 4)
          return -1;
        for (size_t g = 0; g < n / 4; g++)
          {
            unsigned long v = 0;
            for (int i = 0; i < 4; i++)
              {
                if (a64 (p[4 * g + i]) < 0)
                  return -1;
                v |= (unsigned long) a64 (p[4 * g + i]) << (6 * i);
              }
            out[3 * g] = v & 0xff;
            out[3 * g + 1] = (v >> 8) & 0xff;
            out[3 * g + 2] = (v >> 16) & 0xff;
          }
        *salt_chars = (int) n;
        return (int) (n / 4 * 3);
      }
    case M_SUNMD5:
      {
        /* $md5,rounds=N$ssssssss$ : salt carries bytes 2..7 */
        const char *p = strchr (s + 1, '$');
        if (!p)
          return -1;
        p++;
        if (strlen (p) != 9 || p[8] != '$')
          return -1;
        for (int g = 0; g < 2; g++)
          {
            unsigned long v = 0;
            for (int i = 0; i < 4; i++)
              {
                if (a64 (p[4 * g + i]) < 0)
                  return -1;
                v |= (unsigned long) a64 (p[4 * g + i]) << (6 * i);
              }
            out[3 * g] = v & 0xff;
            out[3 * g + 1] = (v >> 8) & 0xff;
            out[3 * g + 2] = (v >> 16) & 0xff;
          }
        *first = 2;
        *salt_chars = 8;
        return 6;
      }
    case M_SHA1:
      {
        /* $sha1$N$salt$ : groups of 4 chars = 24-bit big-endian byte triple, low sextet first */
        if (strncmp (s, "$sha1$", 6))
          return -1;
        const char *p = strchr (s + 6, '$');
        if (!p)
          return -1;
        p++;
        size_t n = strlen (p);
        if (n < 1 || p[n - 1] != '$')
          return -1;
        n--;
        if (n % 4)
          return -1;
        for (size_t g = 0; g < n / 4; g++)
          {
            unsigned long v = 0;
            for (int i = 0; i < 4; i++)
              {
                if (a64 (p[4 * g + i]) < 0)
                  return -1;
                v |= (unsigned long) a64 (p[4 * g + i]) << (6 * i);
              }
            out[3 * g] = (v >> 16) & 0xff;
            out[3 * g + 1] = (v >> 8) & 0xff;
            out[3 * g + 2] = v & 0xff;
          }
        *first = 4;
        *salt_chars = (int) n;
        return (int) (n / 4 * 3);
      }
    case M_BCRYPT_A:
    case M_BCRYPT_B:
    case M_BCRYPT_Y:
      {
        if (l != 29)
          return -1;
        const char *p = s + 7;
        /* standard (big-endian) base64 over the bcrypt alphabet, 22 chars -> 16 bytes */
        unsigned acc = 0;
        int bits = 0, n = 0;
        for (int i = 0; i < 22; i++)
          {
            int v = abf (p[i]);
            if (v < 0)
              return -1;
            acc = (acc << 6) | (unsigned) v;
            bits += 6;
            if (bits >= 8)
              {
                bits -= 8;
                if (n < 16)
                  out[n++] = (acc >> bits) & 0xff;
              }
          }
        if (acc & ((1u << bits) - 1))
          return -1;              /* the 4 padding bits must be zero */
        *salt_chars = 22;
        return 16;
      }
    case M_YESCRYPT:
    case M_GOST:
    case M_SCRYPT:
      {
        const char *p;
        if (m == M_SCRYPT)
          p = s + 3 + 1 + 5 + 5;
        else
          {
            p = strchr (s + (m == M_GOST ? 4 : 3), '$');
            if (!p)
              return -1;
            p++;
          }
        if (strlen (s) < (size_t) (p - s))
          return -1;
        size_t n = strlen (p);
        int nb = 0;
        for (size_t i = 0; i < n;)
          {
            unsigned long v = 0;
            int c = 0;
            while (c < 4 && i < n)
              {
                if (a64 (p[i]) < 0)
                  return -1;
                v |= (unsigned long) a64 (p[i]) << (6 * c);
                c++;
                i++;
              }
            int nbytes = c == 4 ? 3 : c == 3 ? 2 : c == 2 ? 1 : -1;
            if (nbytes < 0)
              return -1;
            for (int k = 0; k < nbytes; k++)
              out[nb++] = (v >> (8 * k)) & 0xff;
            if (v >> (8 * nbytes))
              return -1;          /* unused high bits must be zero */
          }
        *salt_chars = (int) n;
        return nb;
      }
    }
  return -1;
}

static char cj[900];

static void
one (int si, int ni, int fill)
{
  const struct sm *S = &salted[si];
  int nrb = nrb_list[ni];
  unsigned char rb[257], rb2[257], dec[300];
  char out[CRYPT_GENSALT_OUTPUT_SIZE], out2[CRYPT_GENSALT_OUTPUT_SIZE];
  char sig[128];
  for (int i = 0; i < 257; i++)
    rb[i] = fill == 'Z' ? 0 : fill == 'P' ? vh_fillP ((size_t) i + 3) : fill == 'F' ? 0xff : (unsigned char) (vh_hash (&i, sizeof i, (uint64_t) fill) >> 13);
  snprintf (cj, sizeof cj, "{\"prefix\":%s,\"nrbytes\":%d,\"fill\":\"%c\",\"replay\":\"%d:%d:%c\"", vh_jstr (S->prefix),
            nrb, fill, si, ni, fill);
  char *r = 0;
  int k = VH_TRY (0);
  if (k == 0)
    {
      errno = ((si + ni) & 1) ? EPERM : ((si + ni) & 2) ? ERANGE : 0;
      r = crypt_gensalt_rn (S->prefix, 0, (const char *) rb, nrb, out, sizeof out);
      VH_END ();
    }
  vh_stat ("evaluations", 1);
  if (k)
    {
      snprintf (sig, sizeof sig, "fatal/%s/prefix=%s", vh_fatal_name (k), S->prefix);
      vh_viol (sig, "%s,\"outcome\":\"%s\"}", cj, vh_js (vh_fatal_msg, strlen (vh_fatal_msg)));
      return;
    }
  if (!r)
    {
      vh_stat ("refused", 1);
      if (errno != EINVAL && !(errno == ERANGE && nrb > 64))
        {
          snprintf (sig, sizeof sig, "short-input-errno/%d/prefix=%s", errno, S->prefix);
          vh_viol (sig, "%s,\"errno\":%d}", cj, errno);
        }
      /* with >= 16 bytes (and at most 64) every salted method must produce a salt in 192 bytes */
      if (nrb >= 16 && nrb <= 64)
        {
          snprintf (sig, sizeof sig, "refused-adequate-entropy/prefix=%s", S->prefix);
          vh_viol (sig, "%s,\"errno\":%d}", cj, errno);
        }
      return;
    }
  int first, mask, schars = 0;
  int nb = decode_salt (S->m, out, dec, &first, &mask, &schars);
  if (nb < 0)
    {
      snprintf (sig, sizeof sig, "undecodable-salt/prefix=%s", S->prefix);
      vh_viol (sig, "%s,\"result\":%s}", cj, vh_jstr (out));
      return;
    }
  int bits = S->m == M_DES || S->m == M_BIG ? 12 : nb * 8;
  if (nb == 0 || schars == 0)
    {
      /* F3 class: a salt-less setting instead of EINVAL */
      snprintf (sig, sizeof sig, "empty-salt/prefix=%s/nrbytes=%d", S->prefix, nrb);
      vh_viol (sig, "%s,\"result\":%s}", cj, vh_jstr (out));
      return;
    }
  vh_stat ("salts", 1);
  if (vh_distinct (vh_hash_str (out, (uint64_t) nrb)))
    vh_stat ("distinct_nontrivial", 1);
  if (bits < S->min_bits)
    {
      snprintf (sig, sizeof sig, "below-minimum-salt/prefix=%s", S->prefix);
      vh_viol (sig, "%s,\"result\":%s,\"bits\":%d}", cj, vh_jstr (out), bits);
    }
  if (nrb >= 16 && bits < S->std_bits)
    {
      snprintf (sig, sizeof sig, "below-standard-salt/prefix=%s", S->prefix);
      vh_viol (sig, "%s,\"result\":%s,\"bits\":%d}", cj, vh_jstr (out), bits);
    }
  if (first + nb > nrb)
    {
      snprintf (sig, sizeof sig, "salt-longer-than-input/prefix=%s", S->prefix);
      vh_viol (sig, "%s,\"result\":%s}", cj, vh_jstr (out));
      return;
    }
  /* constructive injectivity: the decoded salt is the consumed bytes */
  for (int i = 0; i < nb; i++)
    if (dec[i] != (rb[first + i] & mask))
      {
        snprintf (sig, sizeof sig, "salt-not-the-random-bytes/prefix=%s", S->prefix);
        vh_viol (sig, "%s,\"result\":%s,\"byte\":%d,\"decoded\":%d,\"supplied\":%d}", cj, vh_jstr (out), first + i,
                 dec[i], rb[first + i] & mask);
        return;
      }
  /* every single-bit change inside the consumed window changes the output */
  for (int i = 0; i < nb; i++)
    for (int b = 0; b < 8; b++)
      {
        if (!((mask >> b) & 1))
          continue;
        memcpy (rb2, rb, sizeof rb);
        rb2[first + i] ^= (unsigned char) (1u << b);
        char *r2 = crypt_gensalt_rn (S->prefix, 0, (const char *) rb2, nrb, out2, sizeof out2);
        vh_stat ("evaluations", 1);
        vh_stat ("bitflips", 1);
        if (!r2 || !strcmp (out, out2))
          {
            snprintf (sig, sizeof sig, "bitflip-no-effect/prefix=%s", S->prefix);
            vh_viol (sig, "%s,\"byte\":%d,\"bit\":%d,\"result\":%s}", cj, first + i, b, vh_jstr (out));
            return;
          }
      }
  /* sunmd5 also folds bytes 0..1 into the round count */
  if (S->m == M_SUNMD5)
    for (int i = 0; i < 2; i++)
      for (int b = 0; b < 8; b++)
        {
          memcpy (rb2, rb, sizeof rb);
          rb2[i] ^= (unsigned char) (1u << b);
          char *r2 = crypt_gensalt_rn (S->prefix, 0, (const char *) rb2, nrb, out2, sizeof out2);
          vh_stat ("evaluations", 1);
          if (!r2 || !strcmp (out, out2))
            vh_viol ("bitflip-no-effect/prefix=$md5/rounds", "%s,\"byte\":%d,\"bit\":%d}", cj, i, b);
        }
  if ((ni + si) % 17 == 0)
    vh_sample ("%s,\"setting\":%s,\"salt_bits\":%d,\"window\":[%d,%d]}", cj, vh_jstr (out), bits, first, first + nb);
}

/* rbytes == NULL: bytes come from the OS source (seam), exactly the hashes.conf amount */
static void
auto_entropy (void)
{
  static const char *const pf[] = { "$y$", "$gy$", "$7$", "$2b$", "$2y$", "$2a$", "$6$", "$5$", "$sha1", "$md5", "$1$", "$3$",
    "_", "", "zz", 0
  };
  static const int ms[] = { M_YESCRYPT, M_GOST, M_SCRYPT, M_BCRYPT_B, M_BCRYPT_Y, M_BCRYPT_A, M_SHA512, M_SHA256, M_SHA1,
    M_SUNMD5, M_MD5, M_NT, M_BSDI, M_BIG, M_DES, M_YESCRYPT
  };
  char sig[128];
  for (unsigned i = 0; i < sizeof pf / sizeof *pf; i++)
    {
      char prev[CRYPT_GENSALT_OUTPUT_SIZE] = "";
      /* with rbytes == NULL the nrbytes argument carries no information: every value must behave like 0 */
      static const int nrb_args[] = { 0, 0, 0, 1, 3, 16, 64, 255, 256, 257, 1000, 65536, -1 };
      for (int rep = 0; rep < (int) (sizeof nrb_args / sizeof *nrb_args); rep++)
        {
          char out[CRYPT_GENSALT_OUTPUT_SIZE], out2[CRYPT_GENSALT_OUTPUT_SIZE];
          long calls0 = vh_ent_calls;
          uint64_t ctr = vh_ent_counter;
          char *r = crypt_gensalt_rn (pf[i], 0, 0, nrb_args[rep], out, sizeof out);
          vh_stat ("evaluations", 1);
          vh_stat ("auto_calls", 1);
          snprintf (cj, sizeof cj, "{\"prefix\":%s,\"rbytes\":null,\"nrbytes\":%d,\"repetition\":%d,\"replay\":\"auto\"", vh_jstr (pf[i]), nrb_args[rep], rep);
          if (!r)
            {
              snprintf (sig, sizeof sig, "auto-entropy-failed/prefix=%s", pf[i] ? pf[i] : "(null)");
              vh_viol (sig, "%s,\"errno\":%d}", cj, errno);
              continue;
            }
          int want = vh_methods[ms[i]].conf_nrbytes;
          if (vh_ent_calls != calls0 + 1 || (int) vh_ent_last_n != want)
            {
              snprintf (sig, sizeof sig, "auto-entropy-request/prefix=%s", pf[i] ? pf[i] : "(null)");
              vh_viol (sig, "%s,\"os_requests\":%ld,\"bytes_requested\":%zu,\"documented\":%d}", cj, vh_ent_calls - calls0,
                       vh_ent_last_n, want);
              continue;
            }
          /* result equals the explicit-bytes result for those bytes */
          unsigned char same[256];
          vh_ent_fill (same, (size_t) want, ctr);
          char *r2 = crypt_gensalt_rn (pf[i], 0, (const char *) same, want, out2, sizeof out2);
          if (!r2 || strcmp (out, out2))
            {
              snprintf (sig, sizeof sig, "auto-differs-from-explicit/prefix=%s", pf[i] ? pf[i] : "(null)");
              vh_viol (sig, "%s,\"auto\":%s,\"explicit\":%s}", cj, vh_jstr (out), vh_jstr (r2 ? out2 : 0));
            }
          /* distinct OS answers give distinct salts (NT has no salt) */
          if (ms[i] != M_NT && rep > 0 && !strcmp (prev, out))
            {
              snprintf (sig, sizeof sig, "auto-salt-repeats/prefix=%s", pf[i] ? pf[i] : "(null)");
              vh_viol (sig, "%s,\"result\":%s}", cj, vh_jstr (out));
            }
          strcpy (prev, out);
        }
    }
}

int
main (int argc, char **argv)
{
  vh_init (argc, argv);
  if (vh_replay && *vh_replay)
    {
      int si, ni;
      char f;
      if (!strcmp (vh_replay, "auto"))
        auto_entropy ();
      else if (sscanf (vh_replay, "%d:%d:%c", &si, &ni, &f) == 3)
        one (si, ni, f);
      else
        vh_internal ("bad replay token");
      vh_done ();
      return 0;
    }
  uint64_t idx = 0;
  static const char fills[] = "ZPFabcde";
  int nf = vh_thorough ? 8 : 2;
  for (int si = 0; si < NSM; si++)
    for (int ni = 0; ni < NNRB; ni++)
      for (int f = 0; f < nf; f++, idx++)
        if (vh_mine (idx))
          one (si, ni, fills[f]);
  if (vh_shard == 0)
    auto_entropy ();
  vh_done ();
  return 0;
}
