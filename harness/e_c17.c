/* C17: DES core and the obsolete setkey/encrypt API implement standard DES.
   Reference: the bit-level FIPS 46-3 model of ref/ref_des.h (cross-checked against libgcrypt's
   DES on every run).  Input families are constructed so that every entry of every lookup table
   of the table-driven implementation is exercised (IP/FP/PC1/PC2 by construction, the merged
   S-box pair inputs accounted from the reference's round inputs and required to reach 100%). */
#define _GNU_SOURCE
#include "crypt-port.h"
#include "alg-des.h"
#include "vh_rt.h"
#include "vh_methods.h"
#include <crypt.h>
#include <dlfcn.h>
#include <stdlib.h>
#include "ref_des.h"

static void (*p_setkey) (const char *);
static void (*p_encrypt) (char *, int);
static void (*p_setkey_r) (const char *, struct crypt_data *);
static void (*p_encrypt_r) (char *, int, struct crypt_data *);

static char cj[600];
static unsigned char sbox_seen[4][4096];
static long sbox_cov;

/* S-box pair inputs of every round, from the reference (E(R) with salt swaps, xor round key), marks coverage */
static void
account_sbox (const unsigned char key[8], const unsigned char in[8], uint32_t salt, int decrypt)
{
  struct rd_key K;
  unsigned char b[64], t[64], L[32], R[32], e[48], f[32], sb[32];
  rd_setkey (&K, key);
  rd_bytes2bits (in, b, 64);
  for (int i = 0; i < 64; i++)
    t[i] = b[rd_IP[i] - 1];
  memcpy (L, t, 32);
  memcpy (R, t + 32, 32);
  for (int r = 0; r < 16; r++)
    {
      const unsigned char *k = K.k[decrypt ? 15 - r : r];
      for (int i = 0; i < 48; i++)
        e[i] = R[rd_E[i] - 1];
      for (int i = 0; i < 24; i++)
        if ((salt >> i) & 1)
          {
            unsigned char x = e[i];
            e[i] = e[i + 24];
            e[i + 24] = x;
          }
      for (int i = 0; i < 48; i++)
        e[i] ^= k[i];
      for (int pair = 0; pair < 4; pair++)
        {
          int v = 0;
          for (int j = 0; j < 12; j++)
            v = (v << 1) | e[12 * pair + j];
          if (!sbox_seen[pair][v])
            {
              sbox_seen[pair][v] = 1;
              sbox_cov++;
            }
        }
      for (int s = 0; s < 8; s++)
        {
          const unsigned char *q = e + 6 * s;
          int row = (q[0] << 1) | q[5], col = (q[1] << 3) | (q[2] << 2) | (q[3] << 1) | q[4];
          int v = rd_S[s][row * 16 + col];
          for (int j = 0; j < 4; j++)
            sb[4 * s + j] = (v >> (3 - j)) & 1;
        }
      for (int i = 0; i < 32; i++)
        f[i] = sb[rd_P[i] - 1];
      for (int i = 0; i < 32; i++)
        {
          unsigned char nr = L[i] ^ f[i];
          L[i] = R[i];
          R[i] = nr;
        }
    }
}

/* one core comparison: library des_crypt_block vs reference, both directions */
static int
core_case (const char *family, const unsigned char key[8], const unsigned char in[8], uint32_t salt, unsigned count, const char *replay)
{
  struct des_ctx ctx;
  struct rd_key K;
  unsigned char lo[8], ro[8], back[8];
  char sig[160];
  des_set_key (&ctx, key);
  des_set_salt (&ctx, salt);
  des_crypt_block (&ctx, lo, in, count, false);
  rd_setkey (&K, key);
  rd_crypt_block (&K, ro, in, salt, count, 0);
  vh_stat ("evaluations", 1);
  vh_stat ("core_cases", 1);
  if (count == 1)
    account_sbox (key, in, salt, 0);
  if (memcmp (lo, ro, 8))
    {
      snprintf (sig, sizeof sig, "des-core-differs-from-FIPS46-3/%s", family);
      vh_viol (sig, "{\"family\":\"%s\",\"key\":\"%s\",\"block\":\"%s\",\"salt\":%u,\"count\":%u,\"library\":\"%s\",\"reference\":\"%s\",\"replay\":\"%s\"}", family,
               vh_hex (key, 8), vh_hex (in, 8), salt, count, vh_hex (lo, 8), vh_hex (ro, 8), replay);
      return 1;
    }
  des_crypt_block (&ctx, back, lo, count, true);
  if (memcmp (back, in, 8))
    {
      snprintf (sig, sizeof sig, "des-decrypt-does-not-invert/%s", family);
      vh_viol (sig, "{\"family\":\"%s\",\"key\":\"%s\",\"block\":\"%s\",\"salt\":%u,\"count\":%u,\"replay\":\"%s\"}", family, vh_hex (key, 8), vh_hex (in, 8), salt, count, replay);
      return 1;
    }
  if (count == 1)
    account_sbox (key, lo, salt, 1);
  if (vh_distinct (vh_hash (lo, 8, vh_hash (key, 8, salt + count))))
    vh_stat ("distinct_nontrivial", 1);
  return 0;
}

/* one key schedule, a sequence of operations without re-keying (direction switches must not disturb the schedule) */
static void
family_sequences (int t)
{
  unsigned char key[8], blk[8], out[8], ref[8];
  struct des_ctx ctx;
  struct rd_key K;
  uint64_t a = vh_hash (&t, sizeof t, 777);
  memcpy (key, &a, 8);
  des_set_key (&ctx, key);
  des_set_salt (&ctx, (t & 1) ? 0x5a5 : 0);
  rd_setkey (&K, key);
  for (int pat = 0; pat < 64; pat++)
    {
      /* 6 operations, direction bits from PAT */
      des_set_key (&ctx, key);
      for (int i = 0; i < 6; i++)
        {
          int dec = (pat >> i) & 1;
          uint64_t b = vh_hash (&i, sizeof i, (uint64_t) t);
          memcpy (blk, &b, 8);
          des_crypt_block (&ctx, out, blk, 1, dec);
          rd_crypt_block (&K, ref, blk, (t & 1) ? 0x5a5 : 0, 1, dec);
          vh_stat ("evaluations", 1);
          vh_stat ("core_cases", 1);
          if (memcmp (out, ref, 8))
            {
              vh_viol ("des-core-differs-from-FIPS46-3/operation-sequence", "{\"family\":\"sequence on one key schedule\",\"key\":\"%s\",\"direction_pattern\":%d,\"step\":%d,\"replay\":\"seq\"}", vh_hex (key, 8), pat, i);
              return;
            }
        }
    }
}

static void
bits_to_bytes_msb (const unsigned char *bits, unsigned char *out, int nbytes)
{
  rd_bits2bytes (bits, out, nbytes * 8);
}

static void
family_ip_fp (int i)
{
  static const unsigned char K0[8] = { 0x13, 0x34, 0x57, 0x79, 0x9b, 0xbc, 0xdf, 0xf1 };
  struct rd_key K;
  rd_setkey (&K, K0);
  for (int b = 0; b < 256; b++)
    for (int bg = 0; bg < 2; bg++)
      {
        unsigned char blk[8], st[8], bits[64], cbits[64], c[8], p[8];
        memset (blk, bg ? 0xff : 0, 8);
        blk[i] = (unsigned char) b;
        if (core_case ("IP-entry", K0, blk, 0, 1, "ipfp"))
          return;
        /* pre-FP state with byte i = b: C = FP(state); P = D_K(C); encrypting P passes through that state */
        memset (st, bg ? 0xff : 0, 8);
        st[i] = (unsigned char) b;
        rd_bytes2bits (st, bits, 64);
        for (int q = 0; q < 64; q++)
          cbits[q] = bits[rd_FP[q] - 1];
        bits_to_bytes_msb (cbits, c, 8);
        rd_crypt_block (&K, p, c, 0, 1, 1);
        if (core_case ("FP-entry", K0, p, 0, 1, "ipfp"))
          return;
      }
}

static void
family_keys (int i)
{
  static const unsigned char blocks[4][8] = { {0}, {0xff, 0xff, 0xff, 0xff, 0xff, 0xff, 0xff, 0xff}, {0x01, 0x23, 0x45, 0x67, 0x89, 0xab, 0xcd, 0xef}, {0x80, 0, 0, 0, 0, 0, 0, 1} };
  /* PC1: key byte i carries every 7-bit value, parity bit both ways, background 0 / 0xfe */
  for (int v = 0; v < 128; v++)
    for (int par = 0; par < 2; par++)
      for (int bg = 0; bg < 2; bg++)
        {
          unsigned char key[8];
          memset (key, bg ? 0xfe : 0, 8);
          key[i] = (unsigned char) ((v << 1) | par);
          for (int q = 0; q < 4; q++)
            if (core_case ("PC1-entry", key, blocks[q], 0, 1, "keys"))
              return;
        }
  /* PC2: group i of the 56 key-register bits (C0 D0) takes every 7-bit value: build the key through inverse PC1 */
  for (int v = 0; v < 128; v++)
    for (int bg = 0; bg < 2; bg++)
      {
        unsigned char cd[56], kb[64], key[8];
        memset (cd, bg, 56);
        for (int j = 0; j < 7; j++)
          cd[7 * i + j] = (v >> (6 - j)) & 1;
        memset (kb, 0, 64);
        for (int q = 0; q < 56; q++)
          kb[rd_PC1[q] - 1] = cd[q];
        bits_to_bytes_msb (kb, key, 8);
        for (int q = 0; q < 4; q++)
          if (core_case ("PC2-entry", key, blocks[q], 0, 1, "keys"))
            return;
      }
}

static void
family_weights (int ki)
{
  /* weight-1 and weight-63 keys x weight-1 and weight-63 blocks */
  for (int kinv = 0; kinv < 2; kinv++)
    for (int bi = 0; bi < 64; bi++)
      for (int binv = 0; binv < 2; binv++)
        {
          unsigned char key[8], blk[8];
          memset (key, kinv ? 0xff : 0, 8);
          key[ki / 8] ^= (unsigned char) (0x80 >> (ki % 8));
          memset (blk, binv ? 0xff : 0, 8);
          blk[bi / 8] ^= (unsigned char) (0x80 >> (bi % 8));
          if (core_case ("weight-1/63", key, blk, 0, 1, "weights"))
            return;
        }
}

static void
family_mixed (int chunk)
{
  /* counter-derived keys and blocks: drives the S-box pair inputs through all 4 x 4096 values */
  int n = vh_thorough ? 40000 : 1500;
  for (int t = 0; t < n; t++)
    {
      unsigned char key[8], blk[8];
      uint64_t a = vh_hash (&t, sizeof t, (uint64_t) chunk * 2 + 1), b = vh_hash (&t, sizeof t, (uint64_t) chunk * 2 + 2);
      memcpy (key, &a, 8);
      memcpy (blk, &b, 8);
      if (core_case ("mixed", key, blk, (t % 5 == 0) ? (uint32_t) (a >> 40) & 0xffffff : 0, 1, "mixed"))
        return;
    }
}

static void
family_salt (int part)
{
  static const unsigned counts[] = { 1, 2, 3, 25, 26, 725 };
  static const unsigned char key[8] = { 0x02, 0x46, 0x8a, 0xce, 0xec, 0xa8, 0x64, 0x20 };
  unsigned char blk[8];
  if (part < 26)
    {
      uint32_t salt = part == 24 ? 0 : part == 25 ? 0xffffff : (uint32_t) 1 << part;
      for (unsigned c = 0; c < 6; c++)
        for (int b = 0; b < 64; b++)
          {
            if (!vh_thorough && counts[c] == 725 && b % 8)
              continue;
            memset (blk, 0, 8);
            blk[b / 8] = (unsigned char) (0x80 >> (b % 8));
            if (core_case ("salted-iterated", key, blk, salt, counts[c], "salt"))
              return;
          }
      return;
    }
  /* all 4096 12-bit salts (descrypt's space), dealt in 16 parts */
  for (uint32_t salt = (uint32_t) (part - 26) * 256; salt < (uint32_t) (part - 25) * 256; salt++)
    for (int q = 0; q < 4; q++)
      {
        memset (blk, q & 1 ? 0xff : 0, 8);
        blk[q] ^= 0x5a;
        if (core_case ("salt-12bit", key, blk, salt, q < 2 ? 1 : 25, "salt"))
          return;
      }
}

/* salt 0, count 1 == plain DES == libgcrypt DES */
static void
family_gcrypt (void)
{
  for (int t = 0; t < 400; t++)
    {
      unsigned char key[8], blk[8], c1[8], c2[8];
      uint64_t a = vh_hash (&t, sizeof t, 91), b = vh_hash (&t, sizeof t, 92);
      memcpy (key, &a, 8);
      memcpy (blk, &b, 8);
      gcry_cipher_hd_t h;
      if (gcry_cipher_open (&h, GCRY_CIPHER_DES, GCRY_CIPHER_MODE_ECB, 0))
        vh_internal ("gcry_cipher_open");
      if (gcry_cipher_setkey (h, key, 8))
        {
          gcry_cipher_close (h);
          continue;
        }
      gcry_cipher_encrypt (h, c1, 8, blk, 8);
      gcry_cipher_close (h);
      struct des_ctx ctx;
      des_set_key (&ctx, key);
      des_set_salt (&ctx, 0);
      des_crypt_block (&ctx, c2, blk, 1, false);
      vh_stat ("evaluations", 1);
      vh_stat ("libgcrypt_comparisons", 1);
      if (memcmp (c1, c2, 8))
        vh_viol ("des-core-differs-from-libgcrypt", "{\"key\":\"%s\",\"block\":\"%s\",\"library\":\"%s\",\"libgcrypt\":\"%s\",\"replay\":\"gcrypt\"}", vh_hex (key, 8), vh_hex (blk, 8),
                 vh_hex (c2, 8), vh_hex (c1, 8));
    }
}

/* ---- obsolete API ------------------------------------------------------------- */
static void
vec_from_bytes (const unsigned char b[8], unsigned char junk, char v[64])
{
  for (int i = 0; i < 64; i++)
    v[i] = (char) (((b[i / 8] >> (7 - i % 8)) & 1) | junk);
}

static int
bytes_from_vec (const char v[64], unsigned char b[8])
{
  memset (b, 0, 8);
  for (int i = 0; i < 64; i++)
    {
      if (v[i] != 0 && v[i] != 1)
        return 0;
      b[i / 8] |= (unsigned char) (v[i] << (7 - i % 8));
    }
  return 1;
}

static struct crypt_data *RD;
static unsigned char *RDarena;

static void
api_case (const unsigned char key[8], const unsigned char blk[8], unsigned char junk, const char *what)
{
  char kv[64], bv[64], bv2[64], sig[160];
  unsigned char ro[8], lo[8], lo2[8];
  struct rd_key K;
  rd_setkey (&K, key);
  rd_crypt_block (&K, ro, blk, 0, 1, 0);
  snprintf (cj, sizeof cj, "{\"api\":\"setkey/encrypt\",\"what\":\"%s\",\"key\":\"%s\",\"block\":\"%s\",\"junk_bits\":%d,\"replay\":\"api\"", what, vh_hex (key, 8), vh_hex (blk, 8), junk);
  vec_from_bytes (key, junk, kv);
  vec_from_bytes (blk, junk, bv);
  memcpy (bv2, bv, 64);
  p_setkey (kv);
  p_encrypt (bv, 0);
  /* the re-entrant pair works on an object with arbitrary contents (old glibc contract: only 'initialized' is cleared) */
  memset (RD, junk ? 0xA5 : 0, sizeof *RD);
  RD->initialized = 0;
  p_setkey_r (kv, RD);
  p_encrypt_r (bv2, 0, RD);
  vh_stat ("evaluations", 2);
  vh_stat ("api_cases", 1);
  const char *why = 0;
  if (!bytes_from_vec (bv, lo) || !bytes_from_vec (bv2, lo2))
    why = "result bytes are not 0/1";
  else if (memcmp (lo, ro, 8))
    why = "encrypt differs from FIPS 46-3 DES";
  else if (memcmp (lo, lo2, 8))
    why = "static and re-entrant variants disagree";
  /* struct crypt_data has only char members: the object may live at any address, and may be moved (keeping its alignment) between the two calls */
  for (int off = 0; off < 16 && !why; off++)
    {
      struct crypt_data *o = (struct crypt_data *) (RDarena + off), *o2 = (struct crypt_data *) (RDarena + 64 + off);      /* same alignment: the scratch area is laid out relative to aligned addresses */
      memset (o, junk ? 0x5A : 0, sizeof *o);
      o->initialized = 0;
      vec_from_bytes (blk, junk, bv2);
      p_setkey_r (kv, o);
      if (off & 1)
        {
          memmove (o2, o, sizeof *o);
          memset (o, 0xC3, (size_t) ((char *) o2 - (char *) o));
          o = o2;
        }
      p_encrypt_r (bv2, 0, o);
      vh_stat ("evaluations", 1);
      vh_stat ("api_object_placements", 1);
      if (!bytes_from_vec (bv2, lo2) || memcmp (lo2, ro, 8))
        {
          static char wbuf[120];
          snprintf (wbuf, sizeof wbuf, "setkey_r/encrypt_r wrong for an object at address offset %d%s", off, (off & 1) ? " moved between the calls" : "");
          why = wbuf;
        }
    }
  if (!why)
    {
      /* key parity bits are ignored */
      unsigned char k2[8];
      for (int i = 0; i < 8; i++)
        k2[i] = key[i] ^ 1;
      vec_from_bytes (k2, junk, kv);
      vec_from_bytes (blk, 0, bv2);
      p_setkey (kv);
      p_encrypt (bv2, 0);
      if (!bytes_from_vec (bv2, lo2) || memcmp (lo, lo2, 8))
        why = "key parity bits influence the result";
      /* decryption inverts encryption */
      p_encrypt (bv, 1);
      if (!why && (!bytes_from_vec (bv, lo2) || memcmp (lo2, blk, 8)))
        why = "decrypt(encrypt(x)) != x";
      vh_stat ("evaluations", 2);
    }
  if (why)
    {
      snprintf (sig, sizeof sig, "obsolete-api/%s", why);
      vh_viol (sig, "%s,\"library\":\"%s\",\"reference\":\"%s\"}", cj, vh_hex (lo, 8), vh_hex (ro, 8));
    }
}

static void
family_api (int ki)
{
  static const unsigned char junks[] = { 0, 0xfe, 0x80, 0x30 };
  for (int kinv = 0; kinv < 2; kinv++)
    for (int bi = 0; bi < 64; bi += (vh_thorough ? 1 : 3))
      for (unsigned j = 0; j < sizeof junks; j++)
        {
          unsigned char key[8], blk[8];
          memset (key, kinv ? 0xff : 0, 8);
          key[ki / 8] ^= (unsigned char) (0x80 >> (ki % 8));
          memset (blk, (bi & 1) ? 0xff : 0, 8);
          blk[bi / 8] ^= (unsigned char) (0x80 >> (bi % 8));
          api_case (key, blk, junks[j], "weight-1/63 vectors");
        }
}

/* histories: explicit-state search over a key-register model (static key, object key) */
static void
api_histories (void)
{
  enum { H_SETKEY1, H_SETKEY2, H_ENC, H_DEC, H_CRYPT_DES, H_CRYPT_MD5, H_CRYPT_R, H_GENSALT, H_SETKEY_R1, H_SETKEY_R2, H_ENC_R, NH };
  static const char *const hn[NH] = { "setkey(K1)", "setkey(K2)", "encrypt(e)", "encrypt(d)", "crypt(des)", "crypt(md5)", "crypt_r(obj)", "crypt_gensalt", "setkey_r(obj,K1)",
    "setkey_r(obj,K2)", "encrypt_r(obj,e)" };
  static const unsigned char K1[8] = { 0x13, 0x34, 0x57, 0x79, 0x9b, 0xbc, 0xdf, 0xf1 }, K2[8] = { 0xfe, 0xdc, 0xba, 0x98, 0x76, 0x54, 0x32, 0x10 };
  static const unsigned char B[8] = { 0x01, 0x23, 0x45, 0x67, 0x89, 0xab, 0xcd, 0xef };
  /* Every operation sequence up to depth 3 (11 + 11^2 + 11^3 = 1463 histories) is executed on a fresh object after setkey(K1)
     and the last operation's observable result is compared with the key-register model (static key in {K1,K2}; object key in
     {none, K1, K2}, reset by crypt_r).  Sequences are NOT merged by model state: an operation that is a no-op in the model
     (encrypt, decrypt, crypt, crypt_gensalt) must also be one in the implementation, which only the following operations can show. */
  int states = 0;
  long transitions = 0;
  char kv[64], bv[64];
  unsigned char expect[8], got[8];
  struct rd_key RK;
  int seenm[3][3] = { {0} };
  for (int depth = 1; depth <= 3; depth++)
    {
      int total = 1;
      for (int i = 0; i < depth; i++)
        total *= NH;
      for (int code = 0; code < total; code++)
        {
          int full[3], fl = depth, x = code;
          for (int i = depth - 1; i >= 0; i--, x /= NH)
            full[i] = x % NH;
          memset (RD, 0, sizeof *RD);
          vec_from_bytes (K1, 0, kv);
          p_setkey (kv);
          int sk = 1, ok = 0, bad = 0;
          for (int i = 0; i < fl && !bad; i++)
            {
              int o = full[i];
              int check = i == fl - 1;
              switch (o)
                {
                case H_SETKEY1: vec_from_bytes (K1, 0xfe, kv); p_setkey (kv); sk = 1; break;
                case H_SETKEY2: vec_from_bytes (K2, 0, kv); p_setkey (kv); sk = 2; break;
                case H_ENC:
                case H_DEC:
                  vec_from_bytes (B, 0, bv);
                  p_encrypt (bv, o == H_DEC);
                  if (check)
                    {
                      rd_setkey (&RK, sk == 1 ? K1 : K2);
                      rd_crypt_block (&RK, expect, B, 0, 1, o == H_DEC);
                      if (!bytes_from_vec (bv, got) || memcmp (got, expect, 8))
                        bad = 1;
                    }
                  break;
                case H_CRYPT_DES: (void) crypt ("some-passphrase", "ab"); break;
                case H_CRYPT_MD5: (void) crypt ("some-passphrase", "$1$saltSALT"); break;
                case H_CRYPT_R: (void) crypt_r ("some-passphrase", "zz", RD); ok = 0; break;     /* crypt_r wipes the object's scratch, key included */
                case H_GENSALT: (void) crypt_gensalt ("$1$", 0, "0123456789abcdef", 16); break;
                case H_SETKEY_R1: vec_from_bytes (K1, 0, kv); p_setkey_r (kv, RD); ok = 1; break;
                case H_SETKEY_R2: vec_from_bytes (K2, 0x80, kv); p_setkey_r (kv, RD); ok = 2; break;
                case H_ENC_R:
                  vec_from_bytes (B, 0, bv);
                  p_encrypt_r (bv, 0, RD);
                  if (check && ok)
                    {
                      rd_setkey (&RK, ok == 1 ? K1 : K2);
                      rd_crypt_block (&RK, expect, B, 0, 1, 0);
                      if (!bytes_from_vec (bv, got) || memcmp (got, expect, 8))
                        bad = 2;
                    }
                  break;
                }
            }
          transitions++;
          vh_stat ("evaluations", 1);
          if (!seenm[sk][ok])
            {
              seenm[sk][ok] = 1;
              states++;
            }
          if (bad)
            {
              char hist[400] = "setkey(K1)";
              for (int i = 0; i < fl; i++)
                snprintf (hist + strlen (hist), sizeof hist - strlen (hist), " ; %s", hn[full[i]]);
              vh_viol (bad == 1 ? "obsolete-api/static key disturbed by another call" : "obsolete-api/object key disturbed", "{\"history\":\"%s\",\"model_static_key\":%d,\"model_object_key\":%d,\"replay\":\"hist\"}",
                       hist, sk, ok);
              goto done;
            }
        }
    }
done:
  vh_stat ("history_states", states);
  vh_stat ("history_transitions", transitions);
  vh_sample ("{\"histories\":\"all sequences up to depth 3 against the key-register model\",\"model_states\":%d,\"histories\":%ld,\"alphabet\":%d}", states, transitions, NH);
}

/* white-box cross-check: the tree's own generator reproduces the checked-in tables */
static char libdir[400];
static void
table_generator (void)
{
  const char *repo = getenv ("VERIF_REPO") ? getenv ("VERIF_REPO") : "/repo";
  const char *bdir = libdir;    /* the variant's build directory (holds gen/config.h) */
  char cmd[2400];
  snprintf (cmd, sizeof cmd, "mkdir -p %s/gen-des && gcc -O1 -w -DHAVE_CONFIG_H -I%s/gen -I%s/lib -o %s/gen-des/gen %s/lib/gen-des-tables.c 2>/dev/null && %s/gen-des/gen > %s/gen-des/tables.c 2>/dev/null && "
            "sed -n '/^const/,$p' %s/gen-des/tables.c | grep -v '^#' | tr -d ' \\n\\t' > %s/gen-des/a.txt && sed -n '/^const/,$p' %s/lib/alg-des-tables.c | grep -v '^#' | tr -d ' \\n\\t' > %s/gen-des/b.txt && "
            "test -s %s/gen-des/a.txt && cmp -s %s/gen-des/a.txt %s/gen-des/b.txt", bdir, bdir, repo, bdir, repo, bdir, bdir, bdir, bdir, repo, bdir, bdir, bdir, bdir);
  int rc = system (cmd);
  vh_stat ("evaluations", 1);
  vh_stat ("generator_checked", 1);
  if (rc != 0)
    vh_viol ("des-tables-differ-from-generator-output", "{\"command\":\"gen-des-tables output vs lib/alg-des-tables.c\",\"status\":%d,\"replay\":\"gen\"}", rc);
}

int
main (int argc, char **argv)
{
  vh_init (argc, argv);
  if (!gcry_check_version (0))
    vh_internal ("libgcrypt init failed");
  gcry_control (GCRYCTL_DISABLE_SECMEM, 0);
  gcry_control (GCRYCTL_INITIALIZATION_FINISHED, 0);
  if (!ref_des_selftest ())
    vh_internal ("reference DES disagrees with libgcrypt DES (model error)");
  Dl_info li;
  if (!dladdr ((void *) crypt_rn, &li) || !strstr (li.dli_fname, "libxc.so"))
    vh_internal ("crypt_rn does not resolve to the library under test");
  snprintf (libdir, sizeof libdir, "%s", li.dli_fname);
  if (strrchr (libdir, '/'))
    *strrchr (libdir, '/') = 0;
  void *lh = dlopen (li.dli_fname, RTLD_NOW | RTLD_NOLOAD);
  p_setkey = (void (*)(const char *)) dlvsym (lh, "setkey", "GLIBC_2.2.5");
  p_encrypt = (void (*)(char *, int)) dlvsym (lh, "encrypt", "GLIBC_2.2.5");
  p_setkey_r = (void (*)(const char *, struct crypt_data *)) dlvsym (lh, "setkey_r", "GLIBC_2.2.5");
  p_encrypt_r = (void (*)(char *, int, struct crypt_data *)) dlvsym (lh, "encrypt_r", "GLIBC_2.2.5");
  if (!p_setkey || !p_encrypt || !p_setkey_r || !p_encrypt_r)
    vh_internal ("obsolete DES API not exported by the library build");
  RD = calloc (1, sizeof *RD);
  RDarena = calloc (1, sizeof *RD + 128);
  if (vh_replay && *vh_replay)
    {
      /* families are cheap: replay runs the named family completely */
      if (!strcmp (vh_replay, "ipfp"))
        for (int i = 0; i < 8; i++)
          family_ip_fp (i);
      else if (!strcmp (vh_replay, "keys"))
        for (int i = 0; i < 8; i++)
          family_keys (i);
      else if (!strcmp (vh_replay, "weights"))
        for (int i = 0; i < 64; i++)
          family_weights (i);
      else if (!strcmp (vh_replay, "mixed"))
        for (int i = 0; i < 16; i++)
          family_mixed (i);
      else if (!strcmp (vh_replay, "salt"))
        for (int i = 0; i < 42; i++)
          family_salt (i);
      else if (!strcmp (vh_replay, "seq"))
        for (int i = 0; i < 16; i++)
          family_sequences (i);
      else if (!strcmp (vh_replay, "gcrypt"))
        family_gcrypt ();
      else if (!strcmp (vh_replay, "api"))
        for (int i = 0; i < 64; i++)
          family_api (i);
      else if (!strcmp (vh_replay, "hist"))
        api_histories ();
      else
        table_generator ();
      vh_done ();
      return 0;
    }
  uint64_t idx = 0;
  if (vh_mine (idx++))
    table_generator ();
  if (vh_mine (idx++))
    family_gcrypt ();
  if (vh_mine (idx++))
    api_histories ();
  for (int i = 0; i < 8; i++)
    if (vh_mine (idx++))
      family_ip_fp (i);
  for (int i = 0; i < 8; i++)
    if (vh_mine (idx++))
      family_keys (i);
  for (int i = 0; i < 64; i++)
    if (vh_mine (idx++))
      family_weights (i);
  for (int i = 0; i < 42; i++)
    if (vh_mine (idx++))
      family_salt (i);
  for (int i = 0; i < 16; i++)
    if (vh_mine (idx++))
      family_sequences (i);
  for (int i = 0; i < 64; i++)
    if (vh_mine (idx++))
      family_api (i);
  /* every shard runs the same mixed family so that the S-box pair-input coverage is measured inside one process */
  for (int i = 0; i < 16; i++)
    family_mixed (i);
  vh_statmax ("max_sbox_pair_inputs_covered", sbox_cov);
  if (sbox_cov != 4 * 4096)
    vh_internal ("S-box pair-input coverage %ld of 16384: the input families do not reach every merged S-box entry", sbox_cov);
  vh_sample ("{\"tables\":{\"ip/fp\":\"8x256 x2, by construction\",\"pc1\":\"8x128 x2, by construction\",\"pc2\":\"8x128 x2, by construction\",\"m_sbox pair inputs covered\":%ld}}", sbox_cov);
  vh_done ();
  return 0;
}
