------------------------------ MODULE CryptRa ------------------------------
(* Allocation protocol of crypt_ra on a caller-owned data/size pair (property C14).
   Abstract state:
     blk   class of the data pointer:  "null" | "small" (live block shorter than struct crypt_data) | "adequate"
     rec   class of the recorded size:  "neg" | "zero" | "small" (1 .. sizeof-1) | "ok" (>= sizeof)
     live  number of live heap blocks reachable only through this pair
     last  label of the last operation (so that the dumped graph carries the action on every edge)
   Caller contract: a positive recorded size never exceeds the real block (TypeOK / Init).
   The harness replays EVERY edge of the reachable graph against the real crypt_ra under the
   allocator seam and compares the abstraction of the concrete post-state with the successor. *)
EXTENDS Naturals

VARIABLES blk, rec, live, last

vars == <<blk, rec, live, last>>

Blk == {"null", "small", "adequate"}
Rec == {"neg", "zero", "small", "ok"}

TypeOK == /\ blk \in Blk /\ rec \in Rec /\ live \in 0..2
          /\ last \in {"init", "ra_ok", "ra_bad", "ra_allocfail", "caller_free"}

(* start states the property names: (NULL,0), NULL with stale or negative size, a valid block,
   and malloc'd blocks that are too small or carry a zero/negative recorded size *)
Init == /\ last = "init"
        /\ \/ (blk = "null" /\ rec \in Rec /\ live = 0)
           \/ (blk = "small" /\ rec \in {"neg", "zero", "small"} /\ live = 1)
           \/ (blk = "adequate" /\ rec \in Rec /\ live = 1)

MustGrow == blk = "null" \/ rec # "ok"

(* a hashing request, valid or not: the allocation behaviour is the same *)
Call(label) ==
  /\ last' = label
  /\ IF MustGrow
       THEN /\ blk' = "adequate" /\ rec' = "ok" /\ live' = 1
       ELSE UNCHANGED <<blk, rec, live>>

RaOk  == Call("ra_ok")
RaBad == Call("ra_bad")

(* the allocator refuses: everything the caller owns is untouched *)
RaAllocFail == /\ MustGrow /\ last' = "ra_allocfail" /\ UNCHANGED <<blk, rec, live>>

CallerFree == /\ blk # "null" /\ last' = "caller_free"
              /\ blk' = "null" /\ rec' = "zero" /\ live' = 0

Next == RaOk \/ RaBad \/ RaAllocFail \/ CallerFree

Spec == Init /\ [][Next]_vars

NoLeak    == live = (IF blk = "null" THEN 0 ELSE 1)
SizeSound == (last \in {"ra_ok", "ra_bad"}) => (blk = "adequate" /\ rec = "ok")
=============================================================================
