INIT Init
NEXT Next
INVARIANT TypeOK
INVARIANT NoLeak
INVARIANT SizeSound
