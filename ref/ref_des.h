/* Bit-level DES written from the FIPS 46-3 tables (one bit per byte, no merged tables),
   with the crypt(3) salt perturbation of the E expansion, and descrypt / bigcrypt /
   bsdicrypt / the gost-yescrypt outer layer on top.  ref_des_selftest() checks the plain
   cipher against libgcrypt's DES on every run, so a typo in these tables cannot pass silently. */
#ifndef REF_DES_H
#define REF_DES_H
#include <gcrypt.h>
#include <stdint.h>
#include <string.h>

static const unsigned char rd_IP[64] = {
  58, 50, 42, 34, 26, 18, 10, 2, 60, 52, 44, 36, 28, 20, 12, 4, 62, 54, 46, 38, 30, 22, 14, 6, 64, 56, 48, 40, 32, 24, 16, 8,
  57, 49, 41, 33, 25, 17, 9, 1, 59, 51, 43, 35, 27, 19, 11, 3, 61, 53, 45, 37, 29, 21, 13, 5, 63, 55, 47, 39, 31, 23, 15, 7
};
static const unsigned char rd_FP[64] = {
  40, 8, 48, 16, 56, 24, 64, 32, 39, 7, 47, 15, 55, 23, 63, 31, 38, 6, 46, 14, 54, 22, 62, 30, 37, 5, 45, 13, 53, 21, 61, 29,
  36, 4, 44, 12, 52, 20, 60, 28, 35, 3, 43, 11, 51, 19, 59, 27, 34, 2, 42, 10, 50, 18, 58, 26, 33, 1, 41, 9, 49, 17, 57, 25
};
static const unsigned char rd_E[48] = {
  32, 1, 2, 3, 4, 5, 4, 5, 6, 7, 8, 9, 8, 9, 10, 11, 12, 13, 12, 13, 14, 15, 16, 17,
  16, 17, 18, 19, 20, 21, 20, 21, 22, 23, 24, 25, 24, 25, 26, 27, 28, 29, 28, 29, 30, 31, 32, 1
};
static const unsigned char rd_P[32] = {
  16, 7, 20, 21, 29, 12, 28, 17, 1, 15, 23, 26, 5, 18, 31, 10, 2, 8, 24, 14, 32, 27, 3, 9, 19, 13, 30, 6, 22, 11, 4, 25
};
static const unsigned char rd_PC1[56] = {
  57, 49, 41, 33, 25, 17, 9, 1, 58, 50, 42, 34, 26, 18, 10, 2, 59, 51, 43, 35, 27, 19, 11, 3, 60, 52, 44, 36,
  63, 55, 47, 39, 31, 23, 15, 7, 62, 54, 46, 38, 30, 22, 14, 6, 61, 53, 45, 37, 29, 21, 13, 5, 28, 20, 12, 4
};
static const unsigned char rd_PC2[48] = {
  14, 17, 11, 24, 1, 5, 3, 28, 15, 6, 21, 10, 23, 19, 12, 4, 26, 8, 16, 7, 27, 20, 13, 2,
  41, 52, 31, 37, 47, 55, 30, 40, 51, 45, 33, 48, 44, 49, 39, 56, 34, 53, 46, 42, 50, 36, 29, 32
};
static const unsigned char rd_shifts[16] = { 1, 1, 2, 2, 2, 2, 2, 2, 1, 2, 2, 2, 2, 2, 2, 1 };
static const unsigned char rd_S[8][64] = {
  { 14, 4, 13, 1, 2, 15, 11, 8, 3, 10, 6, 12, 5, 9, 0, 7, 0, 15, 7, 4, 14, 2, 13, 1, 10, 6, 12, 11, 9, 5, 3, 8,
    4, 1, 14, 8, 13, 6, 2, 11, 15, 12, 9, 7, 3, 10, 5, 0, 15, 12, 8, 2, 4, 9, 1, 7, 5, 11, 3, 14, 10, 0, 6, 13 },
  { 15, 1, 8, 14, 6, 11, 3, 4, 9, 7, 2, 13, 12, 0, 5, 10, 3, 13, 4, 7, 15, 2, 8, 14, 12, 0, 1, 10, 6, 9, 11, 5,
    0, 14, 7, 11, 10, 4, 13, 1, 5, 8, 12, 6, 9, 3, 2, 15, 13, 8, 10, 1, 3, 15, 4, 2, 11, 6, 7, 12, 0, 5, 14, 9 },
  { 10, 0, 9, 14, 6, 3, 15, 5, 1, 13, 12, 7, 11, 4, 2, 8, 13, 7, 0, 9, 3, 4, 6, 10, 2, 8, 5, 14, 12, 11, 15, 1,
    13, 6, 4, 9, 8, 15, 3, 0, 11, 1, 2, 12, 5, 10, 14, 7, 1, 10, 13, 0, 6, 9, 8, 7, 4, 15, 14, 3, 11, 5, 2, 12 },
  { 7, 13, 14, 3, 0, 6, 9, 10, 1, 2, 8, 5, 11, 12, 4, 15, 13, 8, 11, 5, 6, 15, 0, 3, 4, 7, 2, 12, 1, 10, 14, 9,
    10, 6, 9, 0, 12, 11, 7, 13, 15, 1, 3, 14, 5, 2, 8, 4, 3, 15, 0, 6, 10, 1, 13, 8, 9, 4, 5, 11, 12, 7, 2, 14 },
  { 2, 12, 4, 1, 7, 10, 11, 6, 8, 5, 3, 15, 13, 0, 14, 9, 14, 11, 2, 12, 4, 7, 13, 1, 5, 0, 15, 10, 3, 9, 8, 6,
    4, 2, 1, 11, 10, 13, 7, 8, 15, 9, 12, 5, 6, 3, 0, 14, 11, 8, 12, 7, 1, 14, 2, 13, 6, 15, 0, 9, 10, 4, 5, 3 },
  { 12, 1, 10, 15, 9, 2, 6, 8, 0, 13, 3, 4, 14, 7, 5, 11, 10, 15, 4, 2, 7, 12, 9, 5, 6, 1, 13, 14, 0, 11, 3, 8,
    9, 14, 15, 5, 2, 8, 12, 3, 7, 0, 4, 10, 1, 13, 11, 6, 4, 3, 2, 12, 9, 5, 15, 10, 11, 14, 1, 7, 6, 0, 8, 13 },
  { 4, 11, 2, 14, 15, 0, 8, 13, 3, 12, 9, 7, 5, 10, 6, 1, 13, 0, 11, 7, 4, 9, 1, 10, 14, 3, 5, 12, 2, 15, 8, 6,
    1, 4, 11, 13, 12, 3, 7, 14, 10, 15, 6, 8, 0, 5, 9, 2, 6, 11, 13, 8, 1, 4, 10, 7, 9, 5, 0, 15, 14, 2, 3, 12 },
  { 13, 2, 8, 4, 6, 15, 11, 1, 10, 9, 3, 14, 5, 0, 12, 7, 1, 15, 13, 8, 10, 3, 7, 4, 12, 5, 6, 11, 0, 14, 9, 2,
    7, 11, 4, 1, 9, 12, 14, 2, 0, 6, 10, 13, 15, 3, 5, 8, 2, 1, 14, 7, 4, 10, 8, 13, 15, 12, 9, 0, 3, 5, 6, 11 },
};

struct rd_key { unsigned char k[16][48]; };

/* bits are numbered 1..64 from the most significant bit of byte 0 (FIPS convention) */
static void
rd_bytes2bits (const unsigned char *in, unsigned char *bits, int n)
{
  for (int i = 0; i < n; i++)
    bits[i] = (in[i / 8] >> (7 - i % 8)) & 1;
}

static void
rd_bits2bytes (const unsigned char *bits, unsigned char *out, int n)
{
  memset (out, 0, (size_t) n / 8);
  for (int i = 0; i < n; i++)
    out[i / 8] |= (unsigned char) (bits[i] << (7 - i % 8));
}

static void
rd_setkey (struct rd_key *K, const unsigned char key[8])
{
  unsigned char kb[64], cd[56], t[56];
  rd_bytes2bits (key, kb, 64);
  for (int i = 0; i < 56; i++)
    cd[i] = kb[rd_PC1[i] - 1];
  for (int r = 0; r < 16; r++)
    {
      for (int s = 0; s < rd_shifts[r]; s++)
        {
          memcpy (t, cd, 56);
          for (int i = 0; i < 28; i++)
            {
              cd[i] = t[(i + 1) % 28];
              cd[28 + i] = t[28 + (i + 1) % 28];
            }
        }
      for (int i = 0; i < 48; i++)
        K->k[r][i] = cd[rd_PC2[i] - 1];
    }
}

/* one DES operation on a 64-bit block given as bits; SALT: bit i set swaps E outputs i and i+24 */
static void
rd_crypt_bits (const struct rd_key *K, unsigned char blk[64], uint32_t salt, int decrypt)
{
  unsigned char t[64], L[32], R[32], e[48], f[32], sb[32];
  for (int i = 0; i < 64; i++)
    t[i] = blk[rd_IP[i] - 1];
  memcpy (L, t, 32);
  memcpy (R, t + 32, 32);
  for (int r = 0; r < 16; r++)
    {
      const unsigned char *k = K->k[decrypt ? 15 - r : r];
      for (int i = 0; i < 48; i++)
        e[i] = R[rd_E[i] - 1];
      for (int i = 0; i < 24; i++)
        if ((salt >> i) & 1)
          {
            unsigned char x = e[i];
            e[i] = e[i + 24];
            e[i + 24] = x;
          }
      for (int i = 0; i < 48; i++)
        e[i] ^= k[i];
      for (int s = 0; s < 8; s++)
        {
          const unsigned char *b = e + 6 * s;
          int row = (b[0] << 1) | b[5];
          int col = (b[1] << 3) | (b[2] << 2) | (b[3] << 1) | b[4];
          int v = rd_S[s][row * 16 + col];
          for (int j = 0; j < 4; j++)
            sb[4 * s + j] = (v >> (3 - j)) & 1;
        }
      for (int i = 0; i < 32; i++)
        f[i] = sb[rd_P[i] - 1];
      for (int i = 0; i < 32; i++)
        {
          unsigned char nr = L[i] ^ f[i];
          L[i] = R[i];
          R[i] = nr;
        }
    }
  memcpy (t, R, 32);
  memcpy (t + 32, L, 32);
  for (int i = 0; i < 64; i++)
    blk[i] = t[rd_FP[i] - 1];
}

static void
rd_crypt_block (const struct rd_key *K, unsigned char out[8], const unsigned char in[8], uint32_t salt, unsigned count, int decrypt)
{
  unsigned char b[64];
  rd_bytes2bits (in, b, 64);
  if (count == 0)
    count = 1;
  while (count--)
    rd_crypt_bits (K, b, salt, decrypt);
  rd_bits2bytes (b, out, 64);
}

static int
ref_des_selftest (void)
{
  static int done, ok;
  if (done)
    return ok;
  done = 1;
  ok = 1;
  int nvec = 0;
  for (int t = 0; t < 200 && ok; t++)
    {
      unsigned char key[8], pt[8], c1[8], c2[8], back[8];
      for (int i = 0; i < 8; i++)
        {
          key[i] = (unsigned char) (t * 37 + i * 101 + (t == 0 ? 0 : 1) * (i * t));
          pt[i] = (unsigned char) (t * 59 + i * 17 + 3);
        }
      if (t == 1)
        memset (key, 0xff, 8), memset (pt, 0, 8);
      gcry_cipher_hd_t h;
      if (gcry_cipher_open (&h, GCRY_CIPHER_DES, GCRY_CIPHER_MODE_ECB, 0))
        return ok = 0;
      if (gcry_cipher_setkey (h, key, 8))
        {
          gcry_cipher_close (h);  /* libgcrypt refuses weak keys: not usable as a vector */
          continue;
        }
      gcry_cipher_encrypt (h, c1, 8, pt, 8);
      gcry_cipher_close (h);
      nvec++;
      struct rd_key K;
      rd_setkey (&K, key);
      rd_crypt_block (&K, c2, pt, 0, 1, 0);
      rd_crypt_block (&K, back, c2, 0, 1, 1);
      if (memcmp (c1, c2, 8) || memcmp (back, pt, 8))
        ok = 0;
    }
  if (nvec < 150)
    ok = 0;
  return ok;
}

static const char rd_a64[] = "./0123456789ABCDEFGHIJKLMNOPQRSTUVWXYZabcdefghijklmnopqrstuvwxyz";
static int
rd_idx (char c)
{
  const char *p = c ? strchr (rd_a64, c) : 0;
  return p ? (int) (p - rd_a64) : -1;
}

/* 64 bits -> 11 characters, most significant sextet first, the last one padded with two zero bits */
static void
rd_encode11 (const unsigned char c[8], char *out)
{
  unsigned char bits[66];
  rd_bytes2bits (c, bits, 64);
  bits[64] = bits[65] = 0;
  for (int i = 0; i < 11; i++)
    {
      int v = 0;
      for (int j = 0; j < 6; j++)
        v = (v << 1) | bits[6 * i + j];
      out[i] = rd_a64[v];
    }
  out[11] = 0;
}

static void
rd_key_from_phrase (const char **pp, unsigned char key[8])
{
  const char *p = *pp;
  for (int i = 0; i < 8; i++)
    {
      key[i] = (unsigned char) ((unsigned char) *p << 1);
      if (*p)
        p++;
    }
  *pp = p;
}

static int
ref_descrypt (const char *pw, size_t pl, const char *setting, char *out)
{
  (void) pl;
  int a = rd_idx (setting[0]), b = a < 0 ? -1 : rd_idx (setting[1]);
  if (a < 0 || b < 0)
    return 0;
  uint32_t salt = (uint32_t) a | ((uint32_t) b << 6);
  unsigned char key[8], z[8] = { 0 }, c[8];
  struct rd_key K;
  rd_key_from_phrase (&pw, key);
  rd_setkey (&K, key);
  rd_crypt_block (&K, c, z, salt, 25, 0);
  out[0] = setting[0];
  out[1] = setting[1];
  rd_encode11 (c, out + 2);
  return 1;
}

static int
ref_bigcrypt (const char *pw, size_t pl, const char *setting, char *out)
{
  if (pl > 8 && strlen (setting) <= 13)
    return ref_descrypt (pw, pl, setting, out);
  int a = rd_idx (setting[0]), b = a < 0 ? -1 : rd_idx (setting[1]);
  if (a < 0 || b < 0)
    return 0;
  uint32_t salt = (uint32_t) a | ((uint32_t) b << 6);
  out[0] = setting[0];
  out[1] = setting[1];
  char *o = out + 2;
  for (int seg = 0; seg < 16; seg++)
    {
      unsigned char key[8], z[8] = { 0 }, c[8];
      struct rd_key K;
      rd_key_from_phrase (&pw, key);
      rd_setkey (&K, key);
      rd_crypt_block (&K, c, z, salt, 25, 0);
      rd_encode11 (c, o);
      if (!*pw)
        break;
      salt = (uint32_t) rd_idx (o[0]) | ((uint32_t) rd_idx (o[1]) << 6);
      o += 11;
    }
  return 1;
}

static int
ref_bsdicrypt (const char *pw, size_t pl, const char *setting, char *out)
{
  (void) pl;
  if (setting[0] != '_' || strlen (setting) < 9)
    return 0;
  uint32_t count = 0, salt = 0;
  for (int i = 0; i < 4; i++)
    {
      int x = rd_idx (setting[1 + i]), y = rd_idx (setting[5 + i]);
      if (x < 0 || y < 0)
        return 0;
      count |= (uint32_t) x << (6 * i);
      salt |= (uint32_t) y << (6 * i);
    }
  if (count > 100000)
    return 0;
  unsigned char q[8] = { 0 }, key[8], z[8] = { 0 }, c[8];
  struct rd_key K;
  for (;;)
    {
      unsigned char blk[8];
      rd_key_from_phrase (&pw, blk);
      for (int i = 0; i < 8; i++)
        key[i] = q[i] ^ blk[i];
      rd_setkey (&K, key);
      if (!*pw)
        break;
      rd_crypt_block (&K, q, key, 0, 1, 0);
    }
  rd_crypt_block (&K, c, z, salt, count, 0);
  memcpy (out, setting, 9);
  rd_encode11 (c, out + 9);
  return 1;
}

/* gost-yescrypt outer layer over a yescrypt result string "$y$params$salt$hash" */
static void
rd_hmac_streebog256 (const unsigned char *key, size_t kl, const unsigned char *msg, size_t ml, unsigned char out[32])
{
  gcry_md_hd_t h;
  if (gcry_md_open (&h, GCRY_MD_STRIBOG256, GCRY_MD_FLAG_HMAC))
    abort ();
  gcry_md_setkey (h, key, kl);
  gcry_md_write (h, msg, ml);
  memcpy (out, gcry_md_read (h, GCRY_MD_STRIBOG256), 32);
  gcry_md_close (h);
}

static int
ref_gost_outer (const char *pw, size_t pl, const char *gsetting, const char *yhash, char *out)
{
  if (strncmp (gsetting, "$gy$", 4) || strncmp (yhash, "$y$", 3))
    return 0;
  const char *hp = strrchr (yhash, '$');
  if (!hp || strlen (hp + 1) != 43)
    return 0;
  /* decode the 43-character little-endian base-64 digest */
  unsigned char y[33];
  size_t nb = 0;
  for (size_t i = 0; i < 43;)
    {
      unsigned long v = 0;
      int c = 0;
      while (c < 4 && i < 43)
        {
          int x = rd_idx (hp[1 + i++]);
          if (x < 0)
            return 0;
          v |= (unsigned long) x << (6 * c++);
        }
      int nbytes = c == 4 ? 3 : 2;
      for (int k = 0; k < nbytes && nb < 32; k++)
        y[nb++] = (v >> (8 * k)) & 0xff;
    }
  size_t keep = (size_t) (hp - yhash) + 1 - 1;   /* "$y$params$salt" has one character less than "$gy$params$salt" */
  keep += 1;
  if (strlen (gsetting) < keep)
    return 0;
  unsigned char hk[32], interm[32], fin[32];
  gcry_md_hash_buffer (GCRY_MD_STRIBOG256, hk, pl ? pw : "", pl);
  rd_hmac_streebog256 (hk, 32, (const unsigned char *) gsetting, keep, interm);
  rd_hmac_streebog256 (interm, 32, y, 32, fin);
  memcpy (out, gsetting, keep);
  out[keep] = '$';
  char *o = out + keep + 1;
  for (size_t i = 0; i < 32;)
    {
      unsigned long v = 0;
      int bits = 0;
      do
        {
          v |= (unsigned long) fin[i++] << bits;
          bits += 8;
        }
      while (bits < 24 && i < 32);
      for (int b = 0; b < bits; b += 6)
        {
          *o++ = rd_a64[v & 0x3f];
          v >>= 6;
        }
    }
  *o = 0;
  return 1;
}
#endif
