"""Specification-level bcrypt (Provos & Mazieres, "A Future-Adaptable Password Scheme") written for
this project.  The Blowfish P-array and S-boxes are not copied from anywhere: they are derived
here from the hexadecimal expansion of pi (Machin's formula in integer arithmetic), which is how
Blowfish defines them.  Pure Python: slow (about a second per hash at cost 4), used on a
sub-slab of the C02 grid only."""

MASK = 0xFFFFFFFF
BF_ALPHA = "./ABCDEFGHIJKLMNOPQRSTUVWXYZabcdefghijklmnopqrstuvwxyz0123456789"


def _pi_words(nwords):
    bits = 32 * nwords + 64
    one = 1 << bits

    def arctan_inv(x):
        # arctan(1/x) scaled by 2^bits
        total, term, n, x2 = 0, one // x, 0, x * x
        while term:
            total += term // (2 * n + 1) if n % 2 == 0 else -(term // (2 * n + 1))
            term //= x2
            n += 1
        return total
    pi = 16 * arctan_inv(5) - 4 * arctan_inv(239)
    frac = pi - 3 * one
    words = []
    for i in range(nwords):
        shift = bits - 32 * (i + 1)
        words.append((frac >> shift) & MASK)
    return words


_W = _pi_words(18 + 4 * 256)
P_INIT = _W[:18]
S_INIT = [_W[18 + 256 * i: 18 + 256 * (i + 1)] for i in range(4)]
assert P_INIT[0] == 0x243F6A88 and S_INIT[0][0] == 0xD1310BA6 and S_INIT[3][255] == 0x3AC372E6, "pi expansion wrong"


class Blowfish:
    def __init__(self):
        self.P = list(P_INIT)
        self.S = [list(s) for s in S_INIT]

    def encrypt(self, L, R):
        P, S0, S1, S2, S3 = self.P, self.S[0], self.S[1], self.S[2], self.S[3]
        for i in range(0, 16, 2):
            L ^= P[i]
            R ^= (((S0[L >> 24] + S1[(L >> 16) & 0xFF]) ^ S2[(L >> 8) & 0xFF]) + S3[L & 0xFF]) & MASK
            R ^= P[i + 1]
            L ^= (((S0[R >> 24] + S1[(R >> 16) & 0xFF]) ^ S2[(R >> 8) & 0xFF]) + S3[R & 0xFF]) & MASK
        return (R ^ P[17]) & MASK, (L ^ P[16]) & MASK

    def expand(self, key_words, salt_words=None):
        for i in range(18):
            self.P[i] ^= key_words[i]
        L = R = 0
        k = 0
        for i in range(0, 18, 2):
            if salt_words:
                L ^= salt_words[k % 4]
                R ^= salt_words[(k + 1) % 4]
                k += 2
            L, R = self.encrypt(L, R)
            self.P[i], self.P[i + 1] = L, R
        for s in range(4):
            for i in range(0, 256, 2):
                if salt_words:
                    L ^= salt_words[k % 4]
                    R ^= salt_words[(k + 1) % 4]
                    k += 2
                L, R = self.encrypt(L, R)
                self.S[s][i], self.S[s][i + 1] = L, R


def key_words(key, sub):
    """18 big-endian words from 72 bytes read by cycling through the key and its terminating NUL.
    $2x$ reproduces the crypt_blowfish <= 1.0.4 sign-extension bug (each byte ORed in as a signed char);
    $2a$ is the correct expansion plus the documented counter-measure: when an 8-bit byte occurred and
    the buggy expansion would have been identical to the correct one although a non-benign sign extension
    (8-bit byte in position 2..4 of a word) took place, bit 16 of the first word is flipped.
    Returns (words, xor_into_P0)."""
    kb = key + b"\0"
    good, bug, j, sign = [], [], 0, 0
    for _ in range(18):
        w = wb = 0
        for k in range(4):
            c = kb[j]
            w = ((w << 8) | c) & MASK
            wb = ((wb << 8) | (c | 0xFFFFFF00 if c >= 0x80 else c)) & MASK
            if k:                       # in the first byte of a word the extension is shifted out: benign
                sign |= c & 0x80
            j = (j + 1) % len(kb)
        good.append(w)
        bug.append(wb)
    if sub == "x":
        return bug, 0
    if sub == "a" and sign and good == bug:
        return good, 0x10000
    return good, 0


def b64decode(s, nbytes):
    acc = bits = 0
    out = bytearray()
    for ch in s:
        acc = (acc << 6) | BF_ALPHA.index(ch)
        bits += 6
        if bits >= 8:
            bits -= 8
            out.append((acc >> bits) & 0xFF)
            if len(out) == nbytes:
                break
    return bytes(out)


def b64encode(data):
    out, acc, bits = [], 0, 0
    for b in data:
        acc = (acc << 8) | b
        bits += 8
        while bits >= 6:
            bits -= 6
            out.append(BF_ALPHA[(acc >> bits) & 0x3F])
    if bits:
        out.append(BF_ALPHA[(acc << (6 - bits)) & 0x3F])
    return "".join(out)


def bcrypt(phrase, setting):
    """phrase: bytes; setting: '$2b$NN$' + 22 salt characters (+ anything).  Returns the 60-character hash or None
    when the setting/phrase is outside what this model covers."""
    if len(setting) < 29 or setting[0:2] != "$2" or setting[3] != "$" or setting[6] != "$":
        return None
    sub = setting[2]
    if sub not in "abxy" or not setting[4:6].isdigit():
        return None
    cost = int(setting[4:6])
    if cost < 4 or cost > 8:
        return None
    if any(c not in BF_ALPHA for c in setting[7:29]):
        return None
    salt = b64decode(setting[7:29], 16)
    sw = [int.from_bytes(salt[4 * i:4 * i + 4], "big") for i in range(4)]
    kw, flip = key_words(phrase, sub)
    bf = Blowfish()
    bf.P[0] ^= flip
    bf.expand(kw, sw)
    salt18 = [sw[i % 4] for i in range(18)]
    for _ in range(1 << cost):
        bf.expand(kw)
        bf.expand(salt18)
    ct = [int.from_bytes(b"OrpheanBeholderScryDoubt"[4 * i:4 * i + 4], "big") for i in range(6)]
    for _ in range(64):
        for i in range(0, 6, 2):
            ct[i], ct[i + 1] = bf.encrypt(ct[i], ct[i + 1])
    raw = b"".join(w.to_bytes(4, "big") for w in ct)[:23]
    # the 22nd salt character carries only 2 significant bits: canonical form
    last = BF_ALPHA[BF_ALPHA.index(setting[28]) & 0x30]
    return setting[:28] + last + b64encode(raw)


if __name__ == "__main__":
    import sys, time
    t = time.time()
    # published test vector (OpenBSD / John the Ripper): "$2a$05$CCCCCCCCCCCCCCCCCCCCC.E5YPO9kmyuRGyh0XouQYb4YMJKvyOeW" for "U*U"
    h = bcrypt(b"U*U", "$2a$05$CCCCCCCCCCCCCCCCCCCCC.")
    print(h, time.time() - t)
    sys.exit(0 if h == "$2a$05$CCCCCCCCCCCCCCCCCCCCC.E5YPO9kmyuRGyh0XouQYb4YMJKvyOeW" else 1)
