/* Spec-level reference models of the hashing methods, written for this project from the
   public specifications (PHK md5crypt, Drepper's SHA-crypt.txt, NetBSD crypt-sha1, MS NT hash,
   the $7$ scrypt encoding) on top of libgcrypt's digests.  "Boring" on purpose: no tables shared
   with the code under test.  Each returns 1 and fills OUT (>= 384 bytes) on success, 0 when the
   setting is outside what the model covers (the caller then skips the comparison). */
#ifndef REF_CRYPT_H
#define REF_CRYPT_H
#include <gcrypt.h>
#include <stdint.h>
#include <stdio.h>
#include <stdlib.h>
#include <string.h>

static const char ref_a64[] = "./0123456789ABCDEFGHIJKLMNOPQRSTUVWXYZabcdefghijklmnopqrstuvwxyz";

static char *
ref_to64 (char *o, unsigned long v, int n)
{
  while (n-- > 0)
    {
      *o++ = ref_a64[v & 0x3f];
      v >>= 6;
    }
  return o;
}

struct ref_md { gcry_md_hd_t h; int algo; };
static void
ref_open (struct ref_md *m, int algo)
{
  m->algo = algo;
  if (gcry_md_open (&m->h, algo, 0))
    abort ();
}
static void ref_add (struct ref_md *m, const void *p, size_t n) { gcry_md_write (m->h, p, n); }
static void
ref_fin (struct ref_md *m, unsigned char *out)
{
  memcpy (out, gcry_md_read (m->h, m->algo), gcry_md_get_algo_dlen (m->algo));
  gcry_md_close (m->h);
}

/* ---- md5crypt (Poul-Henning Kamp) : "$1$" salt(<=8) ------------------------------- */
static int
ref_md5crypt (const char *pw, size_t pl, const char *setting, char *out)
{
  if (strncmp (setting, "$1$", 3))
    return 0;
  const char *salt = setting + 3;
  size_t sl = strcspn (salt, "$");
  if (sl > 8)
    sl = 8;
  unsigned char fin[16], alt[16];
  struct ref_md a, b;
  ref_open (&b, GCRY_MD_MD5);
  ref_add (&b, pw, pl);
  ref_add (&b, salt, sl);
  ref_add (&b, pw, pl);
  ref_fin (&b, alt);
  ref_open (&a, GCRY_MD_MD5);
  ref_add (&a, pw, pl);
  ref_add (&a, "$1$", 3);
  ref_add (&a, salt, sl);
  for (size_t n = pl; n > 0; n = n > 16 ? n - 16 : 0)
    ref_add (&a, alt, n > 16 ? 16 : n);
  for (size_t i = pl; i; i >>= 1)
    ref_add (&a, (i & 1) ? "\0" : pw, 1);
  ref_fin (&a, fin);
  for (int r = 0; r < 1000; r++)
    {
      struct ref_md c;
      ref_open (&c, GCRY_MD_MD5);
      if (r & 1)
        ref_add (&c, pw, pl);
      else
        ref_add (&c, fin, 16);
      if (r % 3)
        ref_add (&c, salt, sl);
      if (r % 7)
        ref_add (&c, pw, pl);
      if (r & 1)
        ref_add (&c, fin, 16);
      else
        ref_add (&c, pw, pl);
      ref_fin (&c, fin);
    }
  char *o = out + sprintf (out, "$1$%.*s$", (int) sl, salt);
  o = ref_to64 (o, ((unsigned long) fin[0] << 16) | ((unsigned long) fin[6] << 8) | fin[12], 4);
  o = ref_to64 (o, ((unsigned long) fin[1] << 16) | ((unsigned long) fin[7] << 8) | fin[13], 4);
  o = ref_to64 (o, ((unsigned long) fin[2] << 16) | ((unsigned long) fin[8] << 8) | fin[14], 4);
  o = ref_to64 (o, ((unsigned long) fin[3] << 16) | ((unsigned long) fin[9] << 8) | fin[15], 4);
  o = ref_to64 (o, ((unsigned long) fin[4] << 16) | ((unsigned long) fin[10] << 8) | fin[5], 4);
  o = ref_to64 (o, fin[11], 2);
  *o = 0;
  return 1;
}

/* ---- sha256crypt / sha512crypt (Ulrich Drepper, SHA-crypt.txt) --------------------- */
static int
ref_shacrypt (int bits, const char *pw, size_t pl, const char *setting, char *out)
{
  const char *tag = bits == 512 ? "$6$" : "$5$";
  int algo = bits == 512 ? GCRY_MD_SHA512 : GCRY_MD_SHA256;
  size_t dl = bits / 8;
  if (strncmp (setting, tag, 3))
    return 0;
  const char *p = setting + 3;
  unsigned long rounds = 5000;
  int custom = 0;
  if (!strncmp (p, "rounds=", 7))
    {
      char *end;
      if (p[7] < '1' || p[7] > '9')
        return 0;
      rounds = strtoul (p + 7, &end, 10);
      if (*end != '$' || rounds < 1000 || rounds > 999999999)
        return 0;
      custom = 1;
      p = end + 1;
    }
  size_t sl = strcspn (p, "$");
  if (sl > 16)
    sl = 16;
  unsigned char A[64], B[64], DP[64], DS[64];
  struct ref_md b, a, c;
  ref_open (&b, algo);
  ref_add (&b, pw, pl);
  ref_add (&b, p, sl);
  ref_add (&b, pw, pl);
  ref_fin (&b, B);
  ref_open (&a, algo);
  ref_add (&a, pw, pl);
  ref_add (&a, p, sl);
  size_t n;
  for (n = pl; n > dl; n -= dl)
    ref_add (&a, B, dl);
  ref_add (&a, B, n);
  for (n = pl; n; n >>= 1)
    if (n & 1)
      ref_add (&a, B, dl);
    else
      ref_add (&a, pw, pl);
  ref_fin (&a, A);
  ref_open (&c, algo);
  for (n = 0; n < pl; n++)
    ref_add (&c, pw, pl);
  ref_fin (&c, DP);
  unsigned char *P = malloc (pl + 1), *S = malloc (sl + 1);
  for (n = 0; n + dl <= pl; n += dl)
    memcpy (P + n, DP, dl);
  memcpy (P + n, DP, pl - n);
  ref_open (&c, algo);
  for (n = 0; n < 16u + A[0]; n++)
    ref_add (&c, p, sl);
  ref_fin (&c, DS);
  for (n = 0; n + dl <= sl; n += dl)
    memcpy (S + n, DS, dl);
  memcpy (S + n, DS, sl - n);
  for (unsigned long r = 0; r < rounds; r++)
    {
      ref_open (&c, algo);
      if (r & 1)
        ref_add (&c, P, pl);
      else
        ref_add (&c, A, dl);
      if (r % 3)
        ref_add (&c, S, sl);
      if (r % 7)
        ref_add (&c, P, pl);
      if (r & 1)
        ref_add (&c, A, dl);
      else
        ref_add (&c, P, pl);
      ref_fin (&c, A);
    }
  free (P);
  free (S);
  char *o = out + sprintf (out, "%s", tag);
  if (custom)
    o += sprintf (o, "rounds=%lu$", rounds);
  o += sprintf (o, "%.*s$", (int) sl, p);
#define W(b2,b1,b0,nn) o = ref_to64 (o, ((unsigned long) (b2) << 16) | ((unsigned long) (b1) << 8) | (b0), nn)
  if (bits == 512)
    {
      static const unsigned char idx[21][3] = { {0, 21, 42}, {22, 43, 1}, {44, 2, 23}, {3, 24, 45}, {25, 46, 4}, {47, 5, 26}, {6, 27, 48},
        {28, 49, 7}, {50, 8, 29}, {9, 30, 51}, {31, 52, 10}, {53, 11, 32}, {12, 33, 54}, {34, 55, 13}, {56, 14, 35}, {15, 36, 57},
        {37, 58, 16}, {59, 17, 38}, {18, 39, 60}, {40, 61, 19}, {62, 20, 41}
      };
      for (int i = 0; i < 21; i++)
        W (A[idx[i][0]], A[idx[i][1]], A[idx[i][2]], 4);
      W (0, 0, A[63], 2);
    }
  else
    {
      static const unsigned char idx[10][3] = { {0, 10, 20}, {21, 1, 11}, {12, 22, 2}, {3, 13, 23}, {24, 4, 14}, {15, 25, 5}, {6, 16, 26},
        {27, 7, 17}, {18, 28, 8}, {9, 19, 29}
      };
      for (int i = 0; i < 10; i++)
        W (A[idx[i][0]], A[idx[i][1]], A[idx[i][2]], 4);
      W (0, A[31], A[30], 3);
    }
#undef W
  *o = 0;
  return 1;
}

/* ---- sha1crypt (NetBSD): PBKDF1-like chain of HMAC-SHA1 keyed with the passphrase ------ */
static void
ref_hmac_sha1 (const void *key, size_t kl, const void *msg, size_t ml, unsigned char *out)
{
  gcry_md_hd_t h;
  if (gcry_md_open (&h, GCRY_MD_SHA1, GCRY_MD_FLAG_HMAC))
    abort ();
  /* libgcrypt rejects a zero-length HMAC key in some modes: an empty key equals a key of zero bytes padded */
  if (kl == 0)
    gcry_md_setkey (h, "", 0);
  else
    gcry_md_setkey (h, key, kl);
  gcry_md_write (h, msg, ml);
  memcpy (out, gcry_md_read (h, GCRY_MD_SHA1), 20);
  gcry_md_close (h);
}

static int
ref_sha1crypt (const char *pw, size_t pl, const char *setting, char *out)
{
  if (strncmp (setting, "$sha1$", 6))
    return 0;
  const char *p = setting + 6;
  if (*p < '0' || *p > '9')
    return 0;                   /* model covers plain decimal counts only */
  char *end;
  unsigned long it = strtoul (p, &end, 10);
  if (*end != '$' || it > 100000)
    return 0;
  const char *salt = end + 1;
  size_t sl = strspn (salt, ref_a64);
  if (sl == 0 || (salt[sl] && salt[sl] != '$') || sl > 64)
    return 0;
  char first[160];
  int fl = snprintf (first, sizeof first, "%.*s$sha1$%lu", (int) sl, salt, it);
  unsigned char h[20];
  ref_hmac_sha1 (pw, pl, first, (size_t) fl, h);
  for (unsigned long i = 1; i < it; i++)
    ref_hmac_sha1 (pw, pl, h, 20, h);
  char *o = out + sprintf (out, "$sha1$%lu$%.*s$", it, (int) sl, salt);
  for (int i = 0; i < 18; i += 3)
    o = ref_to64 (o, ((unsigned long) h[i] << 16) | ((unsigned long) h[i + 1] << 8) | h[i + 2], 4);
  o = ref_to64 (o, ((unsigned long) h[18] << 16) | ((unsigned long) h[19] << 8) | h[0], 4);
  *o = 0;
  return 1;
}

/* ---- NT hash: MD4 over UTF-16LE of the ISO-8859-1 bytes --------------------------------- */
static int
ref_nt (const char *pw, size_t pl, const char *setting, char *out)
{
  if (strncmp (setting, "$3$", 3))
    return 0;
  unsigned char *u = malloc (2 * pl + 2), d[16];
  for (size_t i = 0; i < pl; i++)
    {
      u[2 * i] = (unsigned char) pw[i];
      u[2 * i + 1] = 0;
    }
  gcry_md_hash_buffer (GCRY_MD_MD4, d, u, 2 * pl);
  free (u);
  char *o = out + sprintf (out, "$3$$");
  for (int i = 0; i < 16; i++)
    o += sprintf (o, "%02x", d[i]);
  return 1;
}

/* ---- little-endian base-64 used by $7$ / $y$ for binary data ----------------------------- */
static char *
ref_enc64 (char *o, const unsigned char *src, size_t n)
{
  for (size_t i = 0; i < n;)
    {
      unsigned long v = 0;
      int bits = 0;
      do
        {
          v |= (unsigned long) src[i++] << bits;
          bits += 8;
        }
      while (bits < 24 && i < n);
      for (int b = 0; b < bits; b += 6)
        {
          *o++ = ref_a64[v & 0x3f];
          v >>= 6;
        }
    }
  *o = 0;
  return o;
}

static int
ref_a64idx (char c)
{
  const char *p = c ? strchr (ref_a64, c) : 0;
  return p ? (int) (p - ref_a64) : -1;
}

/* ---- RFC 7914 scrypt written from the RFC: PBKDF2-HMAC-SHA256 (libgcrypt) + ROMix/BlockMix/Salsa20-8 ---- */
static void
ref_salsa20_8 (uint32_t B[16])
{
  uint32_t x[16];
  memcpy (x, B, 64);
#define R(a,b) (((a) << (b)) | ((a) >> (32 - (b))))
  for (int i = 0; i < 8; i += 2)
    {
      x[4] ^= R (x[0] + x[12], 7); x[8] ^= R (x[4] + x[0], 9); x[12] ^= R (x[8] + x[4], 13); x[0] ^= R (x[12] + x[8], 18);
      x[9] ^= R (x[5] + x[1], 7); x[13] ^= R (x[9] + x[5], 9); x[1] ^= R (x[13] + x[9], 13); x[5] ^= R (x[1] + x[13], 18);
      x[14] ^= R (x[10] + x[6], 7); x[2] ^= R (x[14] + x[10], 9); x[6] ^= R (x[2] + x[14], 13); x[10] ^= R (x[6] + x[2], 18);
      x[3] ^= R (x[15] + x[11], 7); x[7] ^= R (x[3] + x[15], 9); x[11] ^= R (x[7] + x[3], 13); x[15] ^= R (x[11] + x[7], 18);
      x[1] ^= R (x[0] + x[3], 7); x[2] ^= R (x[1] + x[0], 9); x[3] ^= R (x[2] + x[1], 13); x[0] ^= R (x[3] + x[2], 18);
      x[6] ^= R (x[5] + x[4], 7); x[7] ^= R (x[6] + x[5], 9); x[4] ^= R (x[7] + x[6], 13); x[5] ^= R (x[4] + x[7], 18);
      x[11] ^= R (x[10] + x[9], 7); x[8] ^= R (x[11] + x[10], 9); x[9] ^= R (x[8] + x[11], 13); x[10] ^= R (x[9] + x[8], 18);
      x[12] ^= R (x[15] + x[14], 7); x[13] ^= R (x[12] + x[15], 9); x[14] ^= R (x[13] + x[12], 13); x[15] ^= R (x[14] + x[13], 18);
    }
#undef R
  for (int i = 0; i < 16; i++)
    B[i] += x[i];
}

static void
ref_blockmix (uint32_t *B, uint32_t *Y, size_t r)
{
  uint32_t X[16];
  memcpy (X, &B[(2 * r - 1) * 16], 64);
  for (size_t i = 0; i < 2 * r; i++)
    {
      for (int k = 0; k < 16; k++)
        X[k] ^= B[i * 16 + k];
      ref_salsa20_8 (X);
      memcpy (&Y[i * 16], X, 64);
    }
  for (size_t i = 0; i < r; i++)
    memcpy (&B[i * 16], &Y[(i * 2) * 16], 64);
  for (size_t i = 0; i < r; i++)
    memcpy (&B[(i + r) * 16], &Y[(i * 2 + 1) * 16], 64);
}

static int
ref_scrypt_kdf (const void *pw, size_t pl, const void *salt, size_t sl, uint64_t N, size_t r, size_t p, unsigned char *dk, size_t dkl)
{
  size_t bl = 128 * r;
  if (N * bl > ((size_t) 64 << 20) || p * bl > ((size_t) 16 << 20))
    return 0;
  unsigned char *B = malloc (p * bl);
  uint32_t *V = malloc (N * bl), *X = malloc (bl), *Y = malloc (bl);
  if (gcry_kdf_derive (pl ? pw : "", pl, GCRY_KDF_PBKDF2, GCRY_MD_SHA256, sl ? salt : "", sl, 1, p * bl, B))
    {
      free (B); free (V); free (X); free (Y);
      return 0;
    }
  for (size_t i = 0; i < p; i++)
    {
      memcpy (X, B + i * bl, bl);       /* little-endian host */
      for (uint64_t j = 0; j < N; j++)
        {
          memcpy (&V[j * (bl / 4)], X, bl);
          ref_blockmix (X, Y, r);
        }
      for (uint64_t j = 0; j < N; j++)
        {
          uint64_t k = (((uint64_t) X[(2 * r - 1) * 16 + 1] << 32) | X[(2 * r - 1) * 16]) & (N - 1);
          for (size_t q = 0; q < bl / 4; q++)
            X[q] ^= V[k * (bl / 4) + q];
          ref_blockmix (X, Y, r);
        }
      memcpy (B + i * bl, X, bl);
    }
  int ok = !gcry_kdf_derive (pl ? pw : "", pl, GCRY_KDF_PBKDF2, GCRY_MD_SHA256, B, p * bl, 1, dkl, dk);
  free (B); free (V); free (X); free (Y);
  return ok;
}

/* "$7$" N(1) r(5) p(5) salt : scrypt over the raw salt string */
static int
ref_scrypt7 (const char *pw, size_t pl, const char *setting, char *out)
{
  if (strncmp (setting, "$7$", 3) || strlen (setting) < 14 || pl == 0)
    return 0;
  int nl = ref_a64idx (setting[3]);
  if (nl < 1 || nl > 16)
    return 0;
  unsigned long r = 0, p = 0;
  for (int i = 0; i < 5; i++)
    {
      int a = ref_a64idx (setting[4 + i]), b = ref_a64idx (setting[9 + i]);
      if (a < 0 || b < 0)
        return 0;
      r |= (unsigned long) a << (6 * i);
      p |= (unsigned long) b << (6 * i);
    }
  if (r < 1 || p < 1 || r > 32 || p > 16)
    return 0;
  const char *salt = setting + 14;
  const char *last = strrchr (salt, '$');
  size_t sl = last ? (size_t) (last - salt) : strlen (salt);
  if (sl == 0)
    return 0;
  unsigned char dk[32];
  if (!ref_scrypt_kdf (pw, pl, salt, sl, (uint64_t) 1 << nl, r, p, dk, 32))
    return 0;
  size_t keep = 14 + sl;
  memcpy (out, setting, keep);
  out[keep] = '$';
  ref_enc64 (out + keep + 1, dk, 32);
  return 1;
}

/* "$y$" flavor 0 ('.') = classic scrypt with the salt decoded to binary: "$y$." N r "$" salt */
static int
ref_yescrypt_flavor0 (const char *pw, size_t pl, const char *setting, char *out)
{
  if (strncmp (setting, "$y$.", 4) || pl == 0)
    return 0;
  int a = ref_a64idx (setting[4]), b = ref_a64idx (setting[5]);
  if (a < 0 || a > 47 || b < 0 || b > 47 || setting[6] != '$')
    return 0;                   /* single-character fields, p = 1 */
  unsigned nl = 1 + (unsigned) a, r = 1 + (unsigned) b;
  if (nl > 16 || r > 32)
    return 0;
  const char *salt = setting + 7;
  const char *last = strrchr (salt, '$');
  size_t sl = last ? (size_t) (last - salt) : strlen (salt);
  unsigned char bin[64];
  size_t nb = 0;
  for (size_t i = 0; i < sl;)
    {
      unsigned long v = 0;
      int c = 0;
      while (c < 4 && i < sl)
        {
          int x = ref_a64idx (salt[i++]);
          if (x < 0)
            return 0;
          v |= (unsigned long) x << (6 * c++);
        }
      int nbytes = c == 4 ? 3 : c == 3 ? 2 : c == 2 ? 1 : -1;
      if (nbytes < 0 || nb + (size_t) nbytes > 64 || (v >> (8 * nbytes)))
        return 0;
      for (int k = 0; k < nbytes; k++)
        bin[nb++] = (v >> (8 * k)) & 0xff;
    }
  if (nb == 0)
    return 0;
  unsigned char dk[32];
  if (!ref_scrypt_kdf (pw, pl, bin, nb, (uint64_t) 1 << nl, r, 1, dk, 32))
    return 0;
  size_t keep = 7 + sl;
  memcpy (out, setting, keep);
  out[keep] = '$';
  ref_enc64 (out + keep + 1, dk, 32);
  return 1;
}
#endif
